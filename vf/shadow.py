"""Shadow terms: immutable nested tuples read off the structural fields of repo
objects, plus textbook reference operations on them.  Nothing in here calls a
method of kernel.term.Term / kernel.type.Type (only attribute reads), so the
oracles stay independent of the functions they judge (DESIGN 0.1).

types : ('tv', name) | ('stv', name) | ('tc', name, (arg, ...)) | ('none',)
terms : ('svar', name, T) | ('var', name, T) | ('const', name, T)
        | ('comb', f, a) | ('abs', name, T, body) | ('bound', n)
"""
import sys

sys.setrecursionlimit(max(sys.getrecursionlimit(), 20000))

BOOL = ('tc', 'bool', ())
NAT = ('tc', 'nat', ())
INT = ('tc', 'int', ())
REAL = ('tc', 'real', ())


def fun(a, b):
    return ('tc', 'fun', (a, b))


def funs(*ts):
    r = ts[-1]
    for t in reversed(ts[:-1]):
        r = fun(t, r)
    return r


class ShadowError(Exception):
    pass


# ---------------------------------------------------------------- conversion
def ty_shadow(T, memo=None):
    if T is None:
        return ('none',)
    if memo is not None:
        r = memo.get(id(T))
        if r is not None:
            return r
    d = T.__dict__
    ty = d['ty']
    if ty == 0:
        r = ('stv', d['name'])
    elif ty == 1:
        r = ('tv', d['name'])
    elif ty == 2:
        r = ('tc', d['name'], tuple(ty_shadow(a, memo) for a in d['args']))
    else:
        raise ShadowError('bad type tag %r' % (ty,))
    if memo is not None:
        memo[id(T)] = r
    return r


def tm_shadow(t, memo=None, tmemo=None):
    """Shadow of a repo term. Explicit stack; memoised by object identity so
    that shared sub-objects stay shared (and DAGs stay linear)."""
    if memo is None:
        memo = {}
    if tmemo is None:
        tmemo = {}
    keep = []  # keep objects alive so ids are not recycled during the walk
    stack = [(t, False)]
    while stack:
        x, done = stack.pop()
        ix = id(x)
        if ix in memo:
            continue
        d = x.__dict__
        ty = d['ty']
        if ty == 3:  # COMB
            if not done:
                stack.append((x, True))
                stack.append((d['arg'], False))
                stack.append((d['fun'], False))
                continue
            memo[ix] = ('comb', memo[id(d['fun'])], memo[id(d['arg'])])
        elif ty == 4:  # ABS
            if not done:
                stack.append((x, True))
                stack.append((d['body'], False))
                continue
            memo[ix] = ('abs', d['var_name'], ty_shadow(d['var_T'], tmemo), memo[id(d['body'])])
        elif ty == 0:
            memo[ix] = ('svar', d['name'], ty_shadow(d['T'], tmemo))
        elif ty == 1:
            memo[ix] = ('var', d['name'], ty_shadow(d['T'], tmemo))
        elif ty == 2:
            memo[ix] = ('const', d['name'], ty_shadow(d['T'], tmemo))
        elif ty == 5:
            memo[ix] = ('bound', d['n'])
        else:
            raise ShadowError('bad term tag %r' % (ty,))
        keep.append(x)
    return memo[id(t)]


def thm_shadow(th):
    return (tuple(tm_shadow(h) for h in th.hyps), tm_shadow(th.prop))


def to_repo_type(s):
    from kernel.type import TVar, STVar, TConst
    k = s[0]
    if k == 'tv':
        return TVar(s[1])
    if k == 'stv':
        return STVar(s[1])
    if k == 'tc':
        return TConst(s[1], *[to_repo_type(a) for a in s[2]])
    if k == 'none':
        return None
    raise ShadowError(s)


def to_repo_term(s, share=None):
    """Build a repo term through the public constructors only.  share: optional
    dict shadow->object; when given, equal shadows map to ONE object (shared
    sub-objects)."""
    from kernel.term import SVar, Var, Const, Comb, Abs, Bound
    if share is not None and s in share:
        return share[s]
    k = s[0]
    if k == 'comb':
        r = Comb(to_repo_term(s[1], share), to_repo_term(s[2], share))
    elif k == 'abs':
        r = Abs(s[1], to_repo_type(s[2]), to_repo_term(s[3], share))
    elif k == 'var':
        r = Var(s[1], to_repo_type(s[2]))
    elif k == 'svar':
        r = SVar(s[1], to_repo_type(s[2]))
    elif k == 'const':
        r = Const(s[1], to_repo_type(s[2]))
    elif k == 'bound':
        r = Bound(s[1])
    else:
        raise ShadowError(s)
    if share is not None:
        share[s] = r
    return r


def jsonable(s):
    """tuples -> lists (for replay files)."""
    if isinstance(s, tuple):
        return [jsonable(x) for x in s]
    return s


def from_json(s):
    if isinstance(s, list):
        return tuple(from_json(x) for x in s)
    return s


# ---------------------------------------------------------------- basic queries
def alpha(s):
    """Canonical form modulo bound names: drop the name hint of every Abs."""
    k = s[0]
    if k == 'comb':
        return ('comb', alpha(s[1]), alpha(s[2]))
    if k == 'abs':
        return ('abs', s[2], alpha(s[3]))
    return s


def aeq(a, b):
    return alpha(a) == alpha(b)


def size(s):
    k = s[0]
    if k == 'comb':
        return 1 + size(s[1]) + size(s[2])
    if k == 'abs':
        return 1 + size(s[3])
    return 1


def typeof(s, bd=()):
    """Strict type checker. Raises ShadowError if ill-typed or open."""
    k = s[0]
    if k in ('var', 'svar', 'const'):
        if s[2] == ('none',):
            raise ShadowError('untyped atom')
        return s[2]
    if k == 'comb':
        tf = typeof(s[1], bd)
        ta = typeof(s[2], bd)
        if tf[0] != 'tc' or tf[1] != 'fun' or len(tf[2]) != 2:
            raise ShadowError('function type expected')
        if tf[2][0] != ta:
            raise ShadowError('argument type mismatch')
        return tf[2][1]
    if k == 'abs':
        return fun(s[2], typeof(s[3], (s[2],) + bd))
    if k == 'bound':
        if s[1] >= len(bd) or s[1] < 0:
            raise ShadowError('loose bound variable')
        return bd[s[1]]
    raise ShadowError(s)


def well_typed(s, want=None):
    try:
        T = typeof(s)
    except ShadowError:
        return False
    return want is None or T == want


def max_loose(s, depth=0):
    """largest (index - depth) over loose bounds, or -1 if closed."""
    k = s[0]
    if k == 'bound':
        return s[1] - depth if s[1] >= depth else -1
    if k == 'comb':
        return max(max_loose(s[1], depth), max_loose(s[2], depth))
    if k == 'abs':
        return max_loose(s[3], depth + 1)
    return -1


def is_closed(s):
    return max_loose(s) < 0


def atoms(s, kinds=('var', 'svar'), acc=None):
    """Free atoms (kind,name,type) in order of first occurrence."""
    if acc is None:
        acc = []
    k = s[0]
    if k in kinds:
        if s not in acc:
            acc.append(s)
    elif k == 'comb':
        atoms(s[1], kinds, acc)
        atoms(s[2], kinds, acc)
    elif k == 'abs':
        atoms(s[3], kinds, acc)
    return acc


def type_vars(T, acc=None):
    if acc is None:
        acc = []
    if T[0] in ('tv', 'stv'):
        if T not in acc:
            acc.append(T)
    elif T[0] == 'tc':
        for a in T[2]:
            type_vars(a, acc)
    return acc


def term_types(s, acc=None):
    """All type annotations occurring in the term."""
    if acc is None:
        acc = []
    k = s[0]
    if k in ('var', 'svar', 'const'):
        acc.append(s[2])
    elif k == 'comb':
        term_types(s[1], acc)
        term_types(s[2], acc)
    elif k == 'abs':
        acc.append(s[2])
        term_types(s[3], acc)
    return acc


def term_type_vars(s):
    acc = []
    for T in term_types(s):
        type_vars(T, acc)
    return acc


def strip_comb(s):
    args = []
    while s[0] == 'comb':
        args.append(s[2])
        s = s[1]
    args.reverse()
    return s, args


def mk_comb(f, *args):
    for a in args:
        f = ('comb', f, a)
    return f


# ---------------------------------------------------------------- reference operations (textbook de Bruijn)
def shift(s, d, cutoff=0):
    k = s[0]
    if k == 'bound':
        return ('bound', s[1] + d) if s[1] >= cutoff else s
    if k == 'comb':
        return ('comb', shift(s[1], d, cutoff), shift(s[2], d, cutoff))
    if k == 'abs':
        return ('abs', s[1], s[2], shift(s[3], d, cutoff + 1))
    return s


def inst_bound(body, t, n=0):
    """body[t/Bound n], bounds above n decremented (the body of an Abs being opened)."""
    k = body[0]
    if k == 'bound':
        if body[1] == n:
            return shift(t, n)
        if body[1] > n:
            return ('bound', body[1] - 1)
        return body
    if k == 'comb':
        return ('comb', inst_bound(body[1], t, n), inst_bound(body[2], t, n))
    if k == 'abs':
        return ('abs', body[1], body[2], inst_bound(body[3], t, n + 1))
    return body


def beta_norm(s, fuel=None):
    """Normal-order beta normal form (terminates on well-typed terms)."""
    if fuel is None:
        fuel = [200000]
    fuel[0] -= 1
    if fuel[0] < 0:
        raise ShadowError('beta fuel')
    k = s[0]
    if k == 'comb':
        f = beta_norm(s[1], fuel)
        if f[0] == 'abs':
            return beta_norm(inst_bound(f[3], s[2]), fuel)
        return ('comb', f, beta_norm(s[2], fuel))
    if k == 'abs':
        return ('abs', s[1], s[2], beta_norm(s[3], fuel))
    return s


def occurs_bound(s, n):
    k = s[0]
    if k == 'bound':
        return s[1] == n
    if k == 'comb':
        return occurs_bound(s[1], n) or occurs_bound(s[2], n)
    if k == 'abs':
        return occurs_bound(s[3], n + 1)
    return False


def eta_norm(s):
    """Eta-contract everywhere (input should be beta-normal)."""
    k = s[0]
    if k == 'comb':
        return ('comb', eta_norm(s[1]), eta_norm(s[2]))
    if k == 'abs':
        b = eta_norm(s[3])
        if b[0] == 'comb' and b[2] == ('bound', 0) and not occurs_bound(b[1], 0):
            return shift(b[1], -1, 1)
        return ('abs', s[1], s[2], b)
    return s


def beta_eta(s):
    prev = None
    cur = s
    for _ in range(50):
        cur = eta_norm(beta_norm(cur))
        if cur == prev:
            break
        prev = cur
    return cur


def ty_subst(T, tyinst):
    """tyinst: dict name -> shadow type, applied to schematic type variables."""
    if T[0] == 'stv':
        return tyinst.get(T[1], T)
    if T[0] == 'tc':
        return ('tc', T[1], tuple(ty_subst(a, tyinst) for a in T[2]))
    return T


def tm_ty_subst(s, tyinst):
    k = s[0]
    if k in ('var', 'svar', 'const'):
        return (k, s[1], ty_subst(s[2], tyinst))
    if k == 'comb':
        return ('comb', tm_ty_subst(s[1], tyinst), tm_ty_subst(s[2], tyinst))
    if k == 'abs':
        return ('abs', s[1], ty_subst(s[2], tyinst), tm_ty_subst(s[3], tyinst))
    return s


def ty_match(pat, T, tyinst):
    """Match schematic type variables of pat against T; extends tyinst; False on failure."""
    if pat[0] == 'stv':
        if pat[1] in tyinst:
            return tyinst[pat[1]] == T
        tyinst[pat[1]] = T
        return True
    if pat[0] == 'tv':
        return pat == T
    if pat[0] == 'tc':
        if T[0] != 'tc' or T[1] != pat[1] or len(T[2]) != len(pat[2]):
            return False
        return all(ty_match(p, a, tyinst) for p, a in zip(pat[2], T[2]))
    return False


def tm_subst(s, svar_inst, var_inst=None, depth=0):
    """Replace schematic variables by name (svar_inst: name->shadow) and free
    variables by name (var_inst), shifting loose bounds of the values."""
    k = s[0]
    if k == 'svar':
        if s[1] in svar_inst:
            return shift(svar_inst[s[1]], depth)
        return s
    if k == 'var':
        if var_inst and s[1] in var_inst:
            return shift(var_inst[s[1]], depth)
        return s
    if k == 'comb':
        return ('comb', tm_subst(s[1], svar_inst, var_inst, depth), tm_subst(s[2], svar_inst, var_inst, depth))
    if k == 'abs':
        return ('abs', s[1], s[2], tm_subst(s[3], svar_inst, var_inst, depth + 1))
    return s


def abstract(s, v, depth=0):
    """Body of %v. s : replace free atom v (kind,name,type) by Bound(depth)."""
    k = s[0]
    if k in ('var', 'svar'):
        return ('bound', depth) if s == v else s
    if k == 'comb':
        return ('comb', abstract(s[1], v, depth), abstract(s[2], v, depth))
    if k == 'abs':
        return ('abs', s[1], s[2], abstract(s[3], v, depth + 1))
    return s


# ---------------------------------------------------------------- pretty (for witnesses)
def ty_str(T):
    k = T[0]
    if k == 'tv':
        return "'" + T[1]
    if k == 'stv':
        return "?'" + T[1]
    if k == 'none':
        return '_'
    if T[1] == 'fun' and len(T[2]) == 2:
        return '(%s => %s)' % (ty_str(T[2][0]), ty_str(T[2][1]))
    if not T[2]:
        return T[1]
    return '(%s) %s' % (', '.join(ty_str(a) for a in T[2]), T[1])


def tm_str(s, typed=False):
    k = s[0]
    if k == 'var':
        return s[1] + ('::' + ty_str(s[2]) if typed else '')
    if k == 'svar':
        return '?' + s[1] + ('::' + ty_str(s[2]) if typed else '')
    if k == 'const':
        return s[1] + ('::' + ty_str(s[2]) if typed else '')
    if k == 'bound':
        return 'B%d' % s[1]
    if k == 'abs':
        return '(%%%s::%s. %s)' % (s[1], ty_str(s[2]), tm_str(s[3], typed))
    return '(%s %s)' % (tm_str(s[1], typed), tm_str(s[2], typed))
