"""W-LIB: replay of the library the way `python -m server.monitor` does it (read-only).

For each theory file: load the imports, then walk the items; for each theorem with recorded `steps`
rebuild the proof state step by step; for each theorem with a recorded `proof` parse and check it.
The theory in force while a theorem is replayed does not yet contain that theorem.
"""
import json, os


WEIGHT = {}   # theory -> number of recorded steps (filled lazily)


def library_dir():
    from vf import core
    return os.path.join(core.REPO, 'library')


def theory_names():
    return sorted(f[:-5] for f in os.listdir(library_dir()) if f.endswith('.json') and f != 'hoare_test_output.json')


def theory_weight(name):
    if name not in WEIGHT:
        with open(os.path.join(library_dir(), name + '.json'), encoding='utf-8') as f:
            d = json.load(f)
        WEIGHT[name] = sum(len(it.get('steps', [])) + 5 for it in d['content'])
    return WEIGHT[name]


def partition(parts):
    """greedy balanced partition of theories into `parts` bins by recorded step count"""
    names = sorted(theory_names(), key=lambda n: -theory_weight(n))
    bins = [[] for _ in range(parts)]
    load = [0] * parts
    for n in names:
        k = load.index(min(load))
        bins[k].append(n)
        load[k] += theory_weight(n)
    return bins


def prepare():
    """imports that register macros/methods, the monitor's Z3 stub, metadata"""
    import warnings
    warnings.simplefilter('ignore')
    from logic import basic
    from prover import z3wrapper
    from data import expr, real   # noqa
    from imperative import imp   # noqa
    basic.load_metadata()
    z3wrapper.check_z3 = False


def iter_theorems(name, rng=None, frac=1.0, want_steps=True, want_proof=True):
    """yield parsed theorem items of theory `name` (theory.thy = everything before the item)"""
    from logic import basic
    from kernel import theory
    from server import items
    data = basic.load_json_data(name)
    basic.load_theory(name, limit='start')
    for raw in data['content']:
        item = items.parse_item(raw)
        if item.error:
            continue
        exts = item.get_extension()
        if item.ty == 'thm' and ((want_steps and item.steps) or (want_proof and item.proof)):
            if rng is None or frac >= 1.0 or rng.random() < frac:
                yield item
        theory.thy.unchecked_extend(exts)


def init_state(item):
    from logic import context
    from server import server
    context.set_context(None, vars=item.vars)
    return server.parse_init_state(item.prop)


def replay_steps(item, after_step=None, before_step=None):
    """apply the recorded steps; callbacks see (state, index, step[, exc]).  Returns the final state."""
    from server import method
    state = init_state(item)
    for k, step in enumerate(item.steps):
        if before_step is not None:
            before_step(state, k, step)
        exc = None
        try:
            method.apply_method(state, step)
            state.check_proof(compute_only=True)
        except Exception as e:
            exc = e
        if after_step is not None:
            after_step(state, k, step, exc)
        if exc is not None:
            break
    return state
