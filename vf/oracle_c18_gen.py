"""C18 workload: per-rule template generators of CORRECT Alethe step instances over random atoms/terms,
and generic + rule-specific NEAR-MISS mutations.  This is workload generation (it may use the repo's
term constructors); the verdicts come from vf.oracle_c18_sem on shadows.

An instance is a dict  {rule, cl (tuple of terms), prevs (list of Thm), step_args, ctx, sizes, kind}
and is turned into macro arguments by assemble(), which mirrors ProofReconstruction.validate_step.
"""
from fractions import Fraction
from vf import shadow as S


class G:
    """term pools and random formula generation (repo terms)."""
    def __init__(self, rng):
        from kernel.term import Var
        from kernel.type import TVar, TFun, BoolType, IntType, RealType
        self.rng = rng
        self.U = TVar('U')
        self.B, self.I, self.R = BoolType, IntType, RealType
        self.bools = [Var('p%d' % i, BoolType) for i in range(5)]
        self.us = [Var('u%d' % i, self.U) for i in range(4)]
        self.f = Var('f', TFun(self.U, self.U))
        self.g = Var('g', TFun(self.U, self.U, self.U))
        self.P = Var('P', TFun(self.U, BoolType))
        self.Q = Var('Q', TFun(self.U, self.U, BoolType))
        self.ints = [Var(n, IntType) for n in ('x', 'y', 'z', 'w')]
        self.h = Var('h', TFun(IntType, IntType))
        self.reals = [Var(n, RealType) for n in ('r', 's', 't', 'v')]

    # ---- terms
    def num(self, T, lo=-6, hi=9):
        from kernel.term import Int, Real
        n = self.rng.randint(lo, hi)
        if T == self.I:
            return Int(n)
        if self.rng.random() < 0.25:
            return Real(Fraction(n, self.rng.choice([2, 3, 4])))
        return Real(n)

    def uterm(self, d=2):
        r = self.rng
        if d <= 0 or r.random() < 0.45:
            return r.choice(self.us)
        if r.random() < 0.6:
            return self.f(self.uterm(d - 1))
        return self.g(self.uterm(d - 1), self.uterm(d - 1))

    def arith(self, T, d=2):
        r = self.rng
        vs = self.ints if T == self.I else self.reals
        if d <= 0 or r.random() < 0.35:
            return r.choice(vs) if r.random() < 0.8 else self.num(T)
        k = r.random()
        if k < 0.35:
            return self.arith(T, d - 1) + self.arith(T, d - 1)
        if k < 0.5:
            return self.arith(T, d - 1) - self.arith(T, d - 1)
        if k < 0.75:
            return self.num(T, 1, 5) * r.choice(vs)
        if k < 0.85:
            return -self.arith(T, d - 1)
        if T == self.I:
            return self.h(self.arith(T, d - 1))
        return r.choice(vs)

    def atom(self):
        from kernel.term import Eq
        r = self.rng
        k = r.random()
        if k < 0.5:
            return r.choice(self.bools)
        if k < 0.62:
            return self.P(self.uterm(1))
        if k < 0.7:
            return self.Q(self.uterm(1), self.uterm(1))
        if k < 0.8:
            return Eq(self.uterm(1), self.uterm(1))
        T = self.I if r.random() < 0.5 else self.R
        a, b = self.arith(T, 1), self.arith(T, 1)
        return r.choice([lambda: a <= b, lambda: a < b, lambda: Eq(a, b)])()

    def form(self, d=2):
        from kernel.term import Not, And, Or, Implies, Eq, true, false
        from logic import logic
        r = self.rng
        if d <= 0 or r.random() < 0.3:
            return self.atom()
        k = r.random()
        if k < 0.2:
            return Not(self.form(d - 1))
        if k < 0.4:
            return And(*[self.form(d - 1) for _ in range(r.choice([2, 2, 3]))])
        if k < 0.6:
            return Or(*[self.form(d - 1) for _ in range(r.choice([2, 2, 3]))])
        if k < 0.72:
            return Implies(self.form(d - 1), self.form(d - 1))
        if k < 0.82:
            return Eq(self.form(d - 1), self.form(d - 1))
        if k < 0.9:
            return logic.mk_if(self.form(d - 1), self.form(d - 1), self.form(d - 1))
        if k < 0.95:
            return logic.mk_xor(self.form(d - 1), self.form(d - 1))
        return r.choice([true, false])

    def forms(self, n, d=1, distinct=False):
        out = []
        tries = 0
        while len(out) < n and tries < 50:
            tries += 1
            t = self.form(d)
            if distinct and t in out:
                continue
            out.append(t)
        while len(out) < n:
            out.append(self.form(d))
        return out

    def anyterm(self):
        """(type tag, term)"""
        k = self.rng.random()
        if k < 0.4:
            return self.uterm(2)
        if k < 0.6:
            return self.arith(self.I, 1)
        if k < 0.8:
            return self.arith(self.R, 1)
        return self.form(1)

    def of_type(self, T, d=1):
        if T == self.B:
            return self.form(d)
        if T == self.U:
            return self.uterm(d)
        if T in (self.I, self.R):
            return self.arith(T, d)
        return None

    def assume(self, prop):
        """a premise sequent whose hypotheses entail prop (mostly  prop |- prop)."""
        from kernel.thm import Thm
        from kernel.term import And, Implies
        k = self.rng.random()
        if k < 0.75:
            return Thm(prop, prop)
        q = self.rng.choice(self.bools)
        if k < 0.88:
            return Thm(prop, And(q, prop))
        return Thm(prop, q, Implies(q, prop))


# ====================================================================== templates
TEMPLATES = {}


def template(*rules):
    def deco(fn):
        for r in rules:
            TEMPLATES.setdefault(r, []).append(fn)
        return fn
    return deco


def inst(rule, cl, prevs=(), step_args=(), ctx=None, sizes=None):
    return {'rule': rule, 'cl': tuple(cl), 'prevs': list(prevs), 'step_args': tuple(step_args),
            'ctx': ctx, 'sizes': sizes, 'kind': 'correct'}


def assemble(I):
    """(macro name, args, prevs) exactly as ProofReconstruction.validate_step builds them."""
    rule = I['rule']
    macro = 'verit_' + rule
    args = tuple(I['cl'])
    prevs = tuple(I['prevs'])
    if rule == 'refl':
        args += (I['ctx'],)
    elif rule in ('bind', 'sko_ex', 'sko_forall', 'onepoint'):
        args += (I['ctx'],)
    elif rule in ('la_generic', 'forall_inst'):
        args += tuple(I['step_args'])
    elif rule in ('resolution', 'th_resolution'):
        args = (tuple(I['cl']), tuple(I['sizes']))
        macro = 'verit_th_resolution'
    elif rule == 'la_tautology':
        macro = 'verit_la_generic'
        args += tuple([[]])
    elif rule in ('norm_lia', 'norm_lra'):
        args = list(I['cl'])        # helper macros of la_generic: args = [term]
    elif rule in ('conj_pts', 'disj_pts'):
        args = None                 # helper macros of ac_simp: only premises
    return macro, args, prevs


# ---------------------------------------------------------------- tautologies
@template('false')
def t_false(g):
    from kernel.term import Not, false
    return inst('false', [Not(false)])


@template('not_not')
def t_not_not(g):
    from kernel.term import Not
    p = g.form(1)
    return inst('not_not', [Not(Not(Not(p))), p])


@template('and_pos')
def t_and_pos(g):
    from kernel.term import Not, And
    ps = g.forms(g.rng.choice([2, 3, 4]))
    return inst('and_pos', [Not(And(*ps)), g.rng.choice(ps)])


@template('and_neg')
def t_and_neg(g):
    from kernel.term import Not, And
    ps = g.forms(g.rng.choice([2, 3, 4]))
    return inst('and_neg', [And(*ps)] + [Not(p) for p in ps])


@template('or_pos')
def t_or_pos(g):
    from kernel.term import Not, Or
    ps = g.forms(g.rng.choice([2, 3, 4]))
    return inst('or_pos', [Not(Or(*ps))] + ps)


@template('or_neg')
def t_or_neg(g):
    from kernel.term import Not, Or
    ps = g.forms(g.rng.choice([2, 3, 4]))
    return inst('or_neg', [Or(*ps), Not(g.rng.choice(ps))])


@template('implies_pos')
def t_implies_pos(g):
    from kernel.term import Not, Implies
    a, b = g.forms(2)
    return inst('implies_pos', [Not(Implies(a, b)), Not(a), b])


@template('implies_neg1')
def t_implies_neg1(g):
    from kernel.term import Implies
    a, b = g.forms(2)
    return inst('implies_neg1', [Implies(a, b), a])


@template('implies_neg2')
def t_implies_neg2(g):
    from kernel.term import Implies, Not
    a, b = g.forms(2)
    return inst('implies_neg2', [Implies(a, b), Not(b)])


@template('equiv_pos1')
def t_equiv_pos1(g):
    from kernel.term import Eq, Not
    a, b = g.forms(2)
    return inst('equiv_pos1', [Not(Eq(a, b)), a, Not(b)])


@template('equiv_pos2')
def t_equiv_pos2(g):
    from kernel.term import Eq, Not
    a, b = g.forms(2)
    return inst('equiv_pos2', [Not(Eq(a, b)), Not(a), b])


@template('equiv_neg1')
def t_equiv_neg1(g):
    from kernel.term import Eq, Not
    a, b = g.forms(2)
    return inst('equiv_neg1', [Eq(a, b), Not(a), Not(b)])


@template('equiv_neg2')
def t_equiv_neg2(g):
    from kernel.term import Eq
    a, b = g.forms(2)
    return inst('equiv_neg2', [Eq(a, b), a, b])


def _ite(g):
    from logic import logic
    a, b, c = g.forms(3)
    return a, b, c, logic.mk_if(a, b, c)


@template('ite_pos1')
def t_ite_pos1(g):
    from kernel.term import Not
    a, b, c, t = _ite(g)
    return inst('ite_pos1', [Not(t), a, c])


@template('ite_pos2')
def t_ite_pos2(g):
    from kernel.term import Not
    a, b, c, t = _ite(g)
    return inst('ite_pos2', [Not(t), Not(a), b])


@template('ite_neg1')
def t_ite_neg1(g):
    from kernel.term import Not
    a, b, c, t = _ite(g)
    return inst('ite_neg1', [t, a, Not(c)])


@template('ite_neg2')
def t_ite_neg2(g):
    from kernel.term import Not
    a, b, c, t = _ite(g)
    return inst('ite_neg2', [t, Not(a), Not(b)])


def _xor(g):
    from logic import logic
    a, b = g.forms(2)
    return a, b, logic.mk_xor(a, b)


@template('xor_pos1')
def t_xor_pos1(g):
    from kernel.term import Not
    a, b, t = _xor(g)
    return inst('xor_pos1', [Not(t), a, b])


@template('xor_pos2')
def t_xor_pos2(g):
    from kernel.term import Not
    a, b, t = _xor(g)
    return inst('xor_pos2', [Not(t), Not(a), Not(b)])


@template('xor_neg1')
def t_xor_neg1(g):
    from kernel.term import Not
    a, b, t = _xor(g)
    return inst('xor_neg1', [t, a, Not(b)])


@template('xor_neg2')
def t_xor_neg2(g):
    from kernel.term import Not
    a, b, t = _xor(g)
    return inst('xor_neg2', [t, Not(a), b])


# ---------------------------------------------------------------- equality
@template('eq_reflexive')
def t_eq_reflexive(g):
    from kernel.term import Eq
    t = g.anyterm()
    return inst('eq_reflexive', [Eq(t, t)])


@template('eq_transitive')
def t_eq_transitive(g):
    from kernel.term import Eq, Not
    n = g.rng.choice([3, 3, 4, 5])
    ts = [g.uterm(1) for _ in range(n)]
    lits = []
    for i in range(n - 1):
        a, b = ts[i], ts[i + 1]
        if g.rng.random() < 0.3:
            a, b = b, a
        lits.append(Not(Eq(a, b)))
    goal = Eq(ts[0], ts[-1]) if g.rng.random() < 0.7 else Eq(ts[-1], ts[0])
    return inst('eq_transitive', lits + [goal])


@template('eq_congruent')
def t_eq_congruent(g):
    from kernel.term import Eq, Not
    if g.rng.random() < 0.5:
        a, b = g.uterm(1), g.uterm(1)
        return inst('eq_congruent', [Not(Eq(a, b)), Eq(g.f(a), g.f(b))])
    a, b, c, d = [g.uterm(1) for _ in range(4)]
    l1 = Not(Eq(a, b)) if g.rng.random() < 0.7 else Not(Eq(b, a))
    return inst('eq_congruent', [l1, Not(Eq(c, d)), Eq(g.g(a, c), g.g(b, d))])


@template('eq_congruent_pred')
def t_eq_congruent_pred(g):
    from kernel.term import Eq, Not
    a, b, c, d = [g.uterm(1) for _ in range(4)]
    if g.rng.random() < 0.5:
        return inst('eq_congruent_pred', [Not(Eq(a, b)), Not(Eq(c, d)), Not(g.Q(a, c)), g.Q(b, d)])
    return inst('eq_congruent_pred', [Not(Eq(a, b)), Not(Eq(c, d)), g.Q(a, c), Not(g.Q(b, d))])


@template('eq_congruent_pred')
def t_eq_congruent_pred1(g):
    from kernel.term import Eq, Not
    a, b = g.uterm(1), g.uterm(1)
    return inst('eq_congruent_pred', [Not(Eq(a, b)), Not(g.P(a)), g.P(b)])


@template('trans')
def t_trans(g):
    from kernel.term import Eq
    n = g.rng.choice([3, 3, 4])
    ts = [g.uterm(1) for _ in range(n)]
    prevs = []
    for i in range(n - 1):
        a, b = ts[i], ts[i + 1]
        if g.rng.random() < 0.2:
            a, b = b, a
        prevs.append(g.assume(Eq(a, b)))
    return inst('trans', [Eq(ts[0], ts[-1])], prevs)


@template('cong')
def t_cong(g):
    from kernel.term import Eq, And, Or
    k = g.rng.random()
    if k < 0.35:
        a, b = g.uterm(1), g.uterm(1)
        return inst('cong', [Eq(g.f(a), g.f(b))], [g.assume(Eq(a, b))])
    if k < 0.6:
        a, b, c, d = [g.uterm(1) for _ in range(4)]
        return inst('cong', [Eq(g.g(a, c), g.g(b, d))], [g.assume(Eq(a, b)), g.assume(Eq(c, d))])
    a, b, c = g.forms(3)
    op = g.rng.choice([And, Or])
    if g.rng.random() < 0.5:
        return inst('cong', [Eq(op(a, c), op(b, c))], [g.assume(Eq(a, b))])
    d = g.form(1)
    return inst('cong', [Eq(op(a, c), op(b, d))], [g.assume(Eq(a, b)), g.assume(Eq(c, d))])


@template('distinct_elim')
def t_distinct_elim(g):
    from kernel.term import Eq, Not, And
    from data import list as hl
    n = g.rng.choice([2, 3, 4])
    ts = []
    while len(ts) < n:
        t = g.uterm(1)
        if t not in ts:
            ts.append(t)
    conj = [Not(Eq(ts[i], ts[j])) for i in range(n) for j in range(i + 1, n)]
    return inst('distinct_elim', [Eq(hl.distinct(hl.mk_literal_list(ts, g.U)), And(*conj))])


# ---------------------------------------------------------------- clausification of a premise
@template('and')
def t_and(g):
    from kernel.term import And
    ps = g.forms(g.rng.choice([2, 3, 4]))
    return inst('and', [g.rng.choice(ps)], [g.assume(And(*ps))])


@template('not_or')
def t_not_or(g):
    from kernel.term import Or, Not
    ps = g.forms(g.rng.choice([2, 3, 4]))
    return inst('not_or', [Not(g.rng.choice(ps))], [g.assume(Not(Or(*ps)))])


@template('or')
def t_or(g):
    from kernel.term import Or
    ps = g.forms(g.rng.choice([2, 3, 4]))
    return inst('or', ps, [g.assume(Or(*ps))])


@template('not_and')
def t_not_and(g):
    from kernel.term import And, Not
    ps = g.forms(g.rng.choice([2, 3, 4]))
    return inst('not_and', [Not(p) for p in ps], [g.assume(Not(And(*ps)))])


@template('implies')
def t_implies(g):
    from kernel.term import Implies, Not
    a, b = g.forms(2)
    return inst('implies', [Not(a), b], [g.assume(Implies(a, b))])


@template('not_implies1')
def t_not_implies1(g):
    from kernel.term import Implies, Not
    a, b = g.forms(2)
    return inst('not_implies1', [a], [g.assume(Not(Implies(a, b)))])


@template('not_implies2')
def t_not_implies2(g):
    from kernel.term import Implies, Not
    a, b = g.forms(2)
    return inst('not_implies2', [Not(b)], [g.assume(Not(Implies(a, b)))])


@template('equiv1')
def t_equiv1(g):
    from kernel.term import Eq, Not
    a, b = g.forms(2)
    return inst('equiv1', [Not(a), b], [g.assume(Eq(a, b))])


@template('equiv2')
def t_equiv2(g):
    from kernel.term import Eq, Not
    a, b = g.forms(2)
    return inst('equiv2', [a, Not(b)], [g.assume(Eq(a, b))])


@template('not_equiv1')
def t_not_equiv1(g):
    from kernel.term import Eq, Not
    a, b = g.forms(2)
    return inst('not_equiv1', [a, b], [g.assume(Not(Eq(a, b)))])


@template('not_equiv2')
def t_not_equiv2(g):
    from kernel.term import Eq, Not
    a, b = g.forms(2)
    return inst('not_equiv2', [Not(a), Not(b)], [g.assume(Not(Eq(a, b)))])


@template('ite1')
def t_ite1(g):
    a, b, c, t = _ite(g)
    return inst('ite1', [a, c], [g.assume(t)])


@template('ite2')
def t_ite2(g):
    from kernel.term import Not
    a, b, c, t = _ite(g)
    return inst('ite2', [Not(a), b], [g.assume(t)])


@template('not_ite1')
def t_not_ite1(g):
    from kernel.term import Not
    a, b, c, t = _ite(g)
    return inst('not_ite1', [a, Not(c)], [g.assume(Not(t))])


@template('not_ite2')
def t_not_ite2(g):
    from kernel.term import Not
    a, b, c, t = _ite(g)
    return inst('not_ite2', [Not(a), Not(b)], [g.assume(Not(t))])


@template('contraction')
def t_contraction(g):
    from kernel.term import Or
    ps = g.forms(g.rng.choice([2, 3]), distinct=True)
    withdup = list(ps)
    for _ in range(g.rng.choice([1, 2])):
        withdup.insert(g.rng.randrange(len(withdup) + 1), g.rng.choice(ps))
    ded = []
    for p in withdup:
        if p not in ded:
            ded.append(p)
    return inst('contraction', ded, [g.assume(Or(*withdup))])


# ---------------------------------------------------------------- resolution
def neg_lit(t):
    from kernel.term import Not
    return t.arg if t.is_not() else Not(t)


@template('resolution', 'th_resolution')
def t_resolution(g):
    """chain C1, C2, ... where C(i+1) contains the complement of a literal of the running resolvent;
    the expected clause is computed here by plain binary resolution with duplicate removal."""
    from kernel.term import Or, false
    from kernel.thm import Thm
    r = g.rng
    n = r.choice([2, 2, 3, 4])
    atoms = g.forms(6, d=0, distinct=True)
    atoms = [a for a in atoms if not a.is_not()]
    if len(atoms) < 4:
        atoms = list(g.bools)

    def lit():
        a = r.choice(atoms)
        return a if r.random() < 0.5 else neg_lit(a)
    cur = []
    for _ in range(r.choice([1, 2, 3])):
        l = lit()
        if l not in cur and neg_lit(l) not in cur:
            cur.append(l)
    clauses = [list(cur)]
    for _ in range(n - 1):
        piv = r.choice(cur)
        other = [neg_lit(piv)]
        for _ in range(r.choice([0, 1, 2])):
            l = lit()
            if l not in other and neg_lit(l) not in other and l != piv and neg_lit(l) not in cur:
                other.append(l)
        r.shuffle(other)
        clauses.append(other)
        cur = [l for l in cur if l != piv]
        for l in other:
            if l != neg_lit(piv) and l not in cur:
                cur.append(l)
        if not cur:
            break
    prevs, sizes = [], []
    for c in clauses:
        prop = Or(*c) if c else false
        if len(c) > 1 and r.random() < 0.25:
            # the premise is a clause of a step (size = number of literals) vs. an assumed disjunction
            prevs.append(Thm(prop, prop))
            sizes.append(len(c))
        else:
            prevs.append(g.assume(prop))
            sizes.append(len(c))
    rule = r.choice(['resolution', 'th_resolution'])
    return inst(rule, cur, prevs, sizes=sizes)


# ---------------------------------------------------------------- linear arithmetic
def _lincomb(g, T, nvars):
    vs = g.rng.sample(g.ints if T == g.I else g.reals, nvars)
    cs = [g.rng.randint(-4, 4) for _ in vs]
    return vs, cs


def _linterm(g, T, vs, cs, const):
    from kernel.term import Int, Real
    mk = Int if T == g.I else Real
    t = None
    for v, c in zip(vs, cs):
        if c == 0:
            continue
        m = v if c == 1 else mk(c) * v
        t = m if t is None else t + m
    if t is None:
        return mk(const)
    if const != 0 or g.rng.random() < 0.2:
        t = t + mk(const)
    return t


@template('la_generic')
def t_la_generic(g):
    """Farkas certificate: pick rows  a_i . x  (<=|<)  b_i  whose positive combination is 0 <(=) negative,
    present the clause of their negations."""
    from kernel.term import Int, Real, Not
    r = g.rng
    T = g.I if r.random() < 0.5 else g.R
    mk = Int if T == g.I else Real
    nv = r.choice([1, 2, 2, 3])
    vs = r.sample(g.ints if T == g.I else g.reals, nv)
    m = r.choice([2, 2, 3])
    for _ in range(40):
        rows = [[r.randint(-3, 3) for _ in vs] for _ in range(m - 1)]
        lam = [r.randint(1, 3) for _ in range(m - 1)]
        # last row cancels the combination: lam_m = 1
        last = [-sum(l * row[j] for l, row in zip(lam, rows)) for j in range(nv)]
        rows.append(last)
        lam.append(1)
        if all(any(c != 0 for c in row) for row in rows):
            break
    else:
        return None
    strict = [r.random() < 0.4 for _ in rows]
    # choose constants with sum(lam*b) < 0 (or <= 0 when some row is strict)
    bs = [r.randint(-4, 4) for _ in rows]
    tot = sum(l * b for l, b in zip(lam, bs))
    need = 0 if any(strict) else -1
    if tot > need:
        bs[-1] -= (tot - need)
    lits = []
    for row, b, st in zip(rows, bs, strict):
        lhs = _linterm(g, T, vs, row, 0)
        rhs = mk(b)
        if r.random() < 0.3:      # move something to the other side
            extra = r.choice(vs)
            lhs, rhs = lhs + extra, rhs + extra
        atom = (lhs < rhs) if st else (lhs <= rhs)
        # the clause contains the NEGATION of each row; write it either as ~(a <= b) or as the flipped comparison
        if r.random() < 0.6:
            lits.append(Not(atom))
        else:
            lits.append((rhs <= lhs) if st else (rhs < lhs))
    coeffs = tuple(mk(l) for l in lam)
    return inst('la_generic', lits, step_args=(coeffs,))


@template('la_generic')
def t_la_generic_eq(g):
    """with an equality row:  ~(s = t) \\/ ~(s <= t - 1)"""
    from kernel.term import Int, Real, Not, Eq
    r = g.rng
    T = g.I if r.random() < 0.5 else g.R
    mk = Int if T == g.I else Real
    vs, cs = _lincomb(g, T, 2)
    if all(c == 0 for c in cs):
        cs[0] = 1
    s = _linterm(g, T, vs, cs, 0)
    b = r.randint(-3, 3)
    d = r.randint(1, 3)
    lits = [Not(Eq(s, mk(b))), Not(s <= mk(b - d))]
    # s = b (coefficient -1 on the equality: b - s = 0 ... ) ; veriT gives signed coefficient for equalities
    return inst("la_generic", lits, step_args=((mk(1), mk(1)),))


@template('la_tautology')
def t_la_tautology(g):
    from kernel.term import Int, Real
    T = g.I if g.rng.random() < 0.5 else g.R
    mk = Int if T == g.I else Real
    t = g.arith(T, 1)
    c = g.rng.randint(0, 3)
    k = g.rng.random()
    if k < 0.4:
        return inst('la_tautology', [t <= t + mk(c)])
    if k < 0.7:
        return inst('la_tautology', [t < t + mk(c + 1)])
    a, b = sorted([g.rng.randint(-5, 5), g.rng.randint(-5, 5)])
    return inst('la_tautology', [mk(a) <= mk(b)])


@template('la_disequality')
def t_la_disequality(g):
    from kernel.term import Eq, Not, Or
    T = g.I if g.rng.random() < 0.5 else g.R
    a, b = g.arith(T, 1), g.arith(T, 1)
    return inst('la_disequality', [Or(Eq(a, b), Not(a <= b), Not(b <= a))])


@template('la_rw_eq')
def t_la_rw_eq(g):
    from kernel.term import Eq, And
    T = g.I if g.rng.random() < 0.5 else g.R
    a, b = g.arith(T, 1), g.arith(T, 1)
    return inst('la_rw_eq', [Eq(Eq(a, b), And(a <= b, b <= a))])


@template('comp_simplify')
def t_comp_simplify(g):
    from kernel.term import Eq, Not, true, false, Int, Real
    r = g.rng
    T = g.I if r.random() < 0.5 else g.R
    mk = Int if T == g.I else Real
    a, b = g.arith(T, 1), g.arith(T, 1)
    k = r.randrange(7)
    if k == 0:
        m, n = r.randint(-5, 5), r.randint(-5, 5)
        return inst('comp_simplify', [Eq(mk(m) < mk(n), true if m < n else false)])
    if k == 1:
        m, n = r.randint(-5, 5), r.randint(-5, 5)
        return inst('comp_simplify', [Eq(mk(m) <= mk(n), true if m <= n else false)])
    if k == 2:
        return inst('comp_simplify', [Eq(a < a, false)])
    if k == 3:
        return inst('comp_simplify', [Eq(a <= a, true)])
    if k == 4:
        return inst('comp_simplify', [Eq(a >= b, b <= a)])
    if k == 5:
        return inst('comp_simplify', [Eq(a < b, Not(b <= a))])
    return inst('comp_simplify', [Eq(a > b, Not(a <= b))])


@template('sum_simplify')
def t_sum_simplify(g):
    from kernel.term import Eq, Int, Real
    r = g.rng
    T = g.I if r.random() < 0.5 else g.R
    mk = Int if T == g.I else Real
    vs = g.ints if T == g.I else g.reals
    items = []
    for _ in range(r.choice([2, 3, 4])):
        items.append(('n', r.randint(-4, 6)) if r.random() < 0.5 else ('v', r.choice(vs)))
    if not any(k == 'v' for k, _ in items):
        items.append(('v', r.choice(vs)))
    if not any(k == 'n' for k, _ in items):
        items.append(('n', r.randint(1, 5)))
    lhs = None
    for k, v in items:
        t = mk(v) if k == 'n' else v
        lhs = t if lhs is None else lhs + t
    const = sum(v for k, v in items if k == 'n')
    nn = [v for k, v in items if k == 'v']
    rest = nn[0]
    for v in nn[1:]:
        rest = rest + v
    rhs = rest if const == 0 else mk(const) + rest
    return inst('sum_simplify', [Eq(lhs, rhs)])


@template('prod_simplify')
def t_prod_simplify(g):
    from kernel.term import Eq, Int, Real
    r = g.rng
    T = g.I if r.random() < 0.5 else g.R
    mk = Int if T == g.I else Real
    v = r.choice(g.ints if T == g.I else g.reals)
    k = r.randrange(3)
    a, b = r.randint(-4, 5), r.randint(-4, 5)
    if k == 0:
        return inst('prod_simplify', [Eq(mk(a) * mk(b), mk(a * b))])
    if k == 1:
        return inst('prod_simplify', [Eq(mk(a) * v * mk(0), mk(0))])
    a = a or 2
    b = b or 3
    return inst('prod_simplify', [Eq(mk(a) * mk(b) * v, mk(a * b) * v)])


@template('minus_simplify')
def t_minus_simplify(g):
    from kernel.term import Eq, Int, Real
    r = g.rng
    T = g.I if r.random() < 0.5 else g.R
    mk = Int if T == g.I else Real
    t = g.arith(T, 1)
    k = r.randrange(4)
    if k == 0:
        return inst('minus_simplify', [Eq(t - t, mk(0))])
    if k == 1:
        return inst('minus_simplify', [Eq(t - mk(0), t)])
    if k == 2:
        return inst('minus_simplify', [Eq(mk(0) - t, -t)])
    a, b = r.randint(-5, 5), r.randint(-5, 5)
    return inst('minus_simplify', [Eq(mk(a) - mk(b), mk(a - b))])


@template('unary_minus_simplify')
def t_unary_minus_simplify(g):
    from kernel.term import Eq, Int, Real
    r = g.rng
    T = g.I if r.random() < 0.5 else g.R
    mk = Int if T == g.I else Real
    if r.random() < 0.5:
        t = g.arith(T, 1)
        return inst('unary_minus_simplify', [Eq(-(-t), t)])
    a = r.randint(1, 6)
    return inst('unary_minus_simplify', [Eq(-mk(a), mk(-a))])


@template('div_simplify')
def t_div_simplify(g):
    from kernel.term import Eq, Int, Real
    r = g.rng
    k = r.randrange(4)
    if k == 0:
        a = r.choice([1, 2, 3, 5])
        return inst('div_simplify', [Eq(Real(a) / Real(a), Real(1))])
    if k == 1:
        t = g.arith(g.R, 1)
        return inst('div_simplify', [Eq(t / Real(1), t)])
    if k == 2:
        a, b = r.randint(-6, 6), r.choice([1, 2, 3, 4])
        return inst('div_simplify', [Eq(Real(a) / Real(b), Real(Fraction(a, b)))])
    a, b = r.randint(0, 9), r.choice([1, 2, 3, 4])
    return inst('div_simplify', [Eq(Int(a) / Int(b), Int(a // b))])


@template('norm_lia')
def t_norm_lia(g):
    t = g.arith(g.I, 2)
    return inst('norm_lia', [t])


@template('norm_lra')
def t_norm_lra(g):
    t = g.arith(g.R, 2)
    return inst('norm_lra', [t])


# ---------------------------------------------------------------- boolean simplifications
@template('not_simplify')
def t_not_simplify(g):
    from kernel.term import Eq, Not, true, false
    k = g.rng.randrange(3)
    if k == 0:
        return inst('not_simplify', [Eq(Not(false), true)])
    if k == 1:
        return inst('not_simplify', [Eq(Not(true), false)])
    p = g.form(1)
    return inst('not_simplify', [Eq(Not(Not(p)), p)])


@template('and_simplify')
def t_and_simplify(g):
    from kernel.term import Eq, Not, And, true, false
    r = g.rng
    ps = g.forms(r.choice([2, 3]), distinct=True)
    k = r.randrange(4)
    if k == 0:
        l = list(ps)
        l.insert(r.randrange(len(l) + 1), true)
        return inst('and_simplify', [Eq(And(*l), And(*ps))])
    if k == 1:
        l = list(ps)
        l.insert(r.randrange(len(l) + 1), r.choice(ps))
        ded = []
        for p in l:
            if p not in ded:
                ded.append(p)
        return inst('and_simplify', [Eq(And(*l), And(*ded))])
    if k == 2:
        l = list(ps)
        l.insert(r.randrange(len(l) + 1), false)
        return inst('and_simplify', [Eq(And(*l), false)])
    l = list(ps)
    l.insert(r.randrange(len(l) + 1), Not(r.choice(ps)))
    return inst('and_simplify', [Eq(And(*l), false)])


@template('or_simplify')
def t_or_simplify(g):
    from kernel.term import Eq, Not, Or, true, false
    r = g.rng
    ps = g.forms(r.choice([2, 3]), distinct=True)
    k = r.randrange(4)
    if k == 0:
        l = list(ps)
        l.insert(r.randrange(len(l) + 1), false)
        return inst('or_simplify', [Eq(Or(*l), Or(*ps))])
    if k == 1:
        l = list(ps)
        l.insert(r.randrange(len(l) + 1), r.choice(ps))
        ded = []
        for p in l:
            if p not in ded:
                ded.append(p)
        return inst('or_simplify', [Eq(Or(*l), Or(*ded))])
    if k == 2:
        l = list(ps)
        l.insert(r.randrange(len(l) + 1), true)
        return inst('or_simplify', [Eq(Or(*l), true)])
    l = list(ps)
    l.insert(r.randrange(len(l) + 1), Not(r.choice(ps)))
    return inst('or_simplify', [Eq(Or(*l), true)])


@template('implies_simplify')
def t_implies_simplify(g):
    from kernel.term import Eq, Not, Or, Implies, true, false
    a, b = g.forms(2)
    k = g.rng.randrange(8)
    c = [lambda: Eq(Implies(Not(a), Not(b)), Implies(b, a)),
         lambda: Eq(Implies(false, a), true),
         lambda: Eq(Implies(a, true), true),
         lambda: Eq(Implies(true, a), a),
         lambda: Eq(Implies(a, false), Not(a)),
         lambda: Eq(Implies(a, a), true),
         lambda: Eq(Implies(Not(a), a), a),
         lambda: Eq(Implies(Implies(a, b), b), Or(a, b))][k]()
    return inst('implies_simplify', [c])


@template('equiv_simplify')
def t_equiv_simplify(g):
    from kernel.term import Eq, Not, true, false
    a, b = g.forms(2)
    k = g.rng.randrange(8)
    c = [lambda: Eq(Eq(Not(a), Not(b)), Eq(a, b)),
         lambda: Eq(Eq(a, a), true),
         lambda: Eq(Eq(a, Not(a)), false),
         lambda: Eq(Eq(Not(a), a), false),
         lambda: Eq(Eq(true, a), a),
         lambda: Eq(Eq(a, true), a),
         lambda: Eq(Eq(false, a), Not(a)),
         lambda: Eq(Eq(a, false), Not(a))][k]()
    return inst('equiv_simplify', [c])


@template('bool_simplify')
def t_bool_simplify(g):
    from kernel.term import Eq, Not, Or, And, Implies
    a, b, c = g.forms(3)
    k = g.rng.randrange(7)
    t = [lambda: Eq(Not(Implies(a, b)), And(a, Not(b))),
         lambda: Eq(Not(Or(a, b)), And(Not(a), Not(b))),
         lambda: Eq(Not(And(a, b)), Or(Not(a), Not(b))),
         lambda: Eq(Implies(a, Implies(b, c)), Implies(And(a, b), c)),
         lambda: Eq(Implies(Implies(a, b), b), Or(a, b)),
         lambda: Eq(And(a, Implies(a, b)), And(a, b)),
         lambda: Eq(And(Implies(a, b), a), And(a, b))][k]()
    return inst('bool_simplify', [t])


@template('ite_simplify')
def t_ite_simplify(g):
    from kernel.term import Eq, Not, Or, And, true, false
    from logic.logic import mk_if
    p, q, s = g.forms(3)
    if g.rng.random() < 0.4:
        x, y, z = g.uterm(1), g.uterm(1), g.uterm(1)
    else:
        x, y, z = g.forms(3)
    k = g.rng.randrange(14)
    t = [lambda: Eq(mk_if(true, x, y), x),
         lambda: Eq(mk_if(false, x, y), y),
         lambda: Eq(mk_if(p, x, x), x),
         lambda: Eq(mk_if(Not(p), x, y), mk_if(p, y, x)),
         lambda: Eq(mk_if(p, mk_if(p, x, y), z), mk_if(p, x, z)),
         lambda: Eq(mk_if(p, x, mk_if(p, y, z)), mk_if(p, x, z)),
         lambda: Eq(mk_if(p, true, false), p),
         lambda: Eq(mk_if(p, false, true), Not(p)),
         lambda: Eq(mk_if(p, true, q), Or(p, q)),
         lambda: Eq(mk_if(p, q, false), And(p, q)),
         lambda: Eq(mk_if(p, false, q), And(Not(p), q)),
         lambda: Eq(mk_if(p, q, true), Or(Not(p), q)),
         lambda: Eq(mk_if(Not(p), q, true), Or(p, q)),
         lambda: Eq(mk_if(Not(p), false, q), And(p, q))][k]()
    return inst('ite_simplify', [t])


@template('eq_simplify')
def t_eq_simplify(g):
    from kernel.term import Eq, Not, true, false, Int, Real
    r = g.rng
    k = r.randrange(3)
    T = g.I if r.random() < 0.5 else g.R
    mk = Int if T == g.I else Real
    if k == 0:
        t = g.anyterm()
        return inst('eq_simplify', [Eq(Eq(t, t), true)])
    a = r.randint(-4, 4)
    b = a + r.randint(1, 4)
    if k == 1:
        return inst('eq_simplify', [Eq(Eq(mk(a), mk(b)), false)])
    t = g.anyterm()
    return inst('eq_simplify', [Eq(Not(Eq(t, t)), false)])


@template('ac_simp')
def t_ac_simp(g):
    from kernel.term import Eq, And, Or
    r = g.rng
    op = r.choice([And, Or])
    ps = g.forms(3, d=0, distinct=True)
    while len(ps) < 3:
        ps.append(g.form(0))
    a, b, c = ps[:3]
    k = r.randrange(3)
    if k == 0:
        return inst('ac_simp', [Eq(op(op(a, b), c), op(a, b, c))])
    if k == 1:
        return inst('ac_simp', [Eq(op(a, op(b, a), c), op(a, b, c))])
    return inst('ac_simp', [Eq(op(op(a, b), op(c, a)), op(a, b, c))])


@template('connective_def')
def t_connective_def(g):
    from kernel.term import Eq, And, Implies, Not, Exists, Forall
    from logic.logic import mk_if
    a, b, c = g.forms(3)
    k = g.rng.randrange(3)
    if k == 0:
        return inst('connective_def', [Eq(Eq(a, b), And(Implies(a, b), Implies(b, a)))])
    if k == 1:
        return inst('connective_def', [Eq(mk_if(a, b, c), And(Implies(a, b), Implies(Not(a), c)))])
    x, body = _qbody(g)
    return inst('connective_def', [Eq(Exists(x, body), Not(Forall(x, Not(body))))])


# ---------------------------------------------------------------- quantifiers
def _qbody(g, var=None):
    """a bound variable of sort U (named like no pool atom) and a body mentioning it."""
    from kernel.term import Var, Eq, Not, And, Or, Implies
    r = g.rng
    x = var or Var(r.choice(['a', 'b', 'c']), g.U)
    u = r.choice(g.us)
    atoms = [g.P(x), g.Q(x, u), g.Q(u, x), Eq(g.f(x), u), g.P(g.f(x)), g.Q(x, x)]
    a = r.choice(atoms)
    k = r.random()
    if k < 0.3:
        return x, a
    b = r.choice(atoms + [r.choice(g.bools), g.P(u)])
    if k < 0.5:
        return x, Or(a, b)
    if k < 0.7:
        return x, And(a, b)
    if k < 0.85:
        return x, Implies(b, a)
    return x, Not(a)


def _subst_var(t, x, s):
    """t[s/x] through shadows (independent of Term.subst)."""
    sh = S.tm_subst(S.tm_shadow(t), {}, {x.name: S.tm_shadow(s)})
    return S.to_repo_term(sh)


@template('forall_inst')
def t_forall_inst(g):
    from kernel.term import Forall, Not, Or
    x, body = _qbody(g)
    t = g.uterm(1)
    return inst('forall_inst', [Or(Not(Forall(x, body)), _subst_var(body, x, t))], step_args=((x.name, t),))


@template('forall_inst')
def t_forall_inst2(g):
    from kernel.term import Forall, Not, Or, Var, And
    x, b1 = _qbody(g, Var('a', g.U))
    y, b2 = _qbody(g, Var('b', g.U))
    body = And(b1, b2)
    t1, t2 = g.uterm(1), g.uterm(1)
    res = _subst_var(_subst_var(body, x, t1), y, t2)
    return inst('forall_inst', [Or(Not(Forall(x, y, body)), res)], step_args=((x.name, t1), (y.name, t2)))


@template('qnt_cnf')
def t_qnt_cnf(g):
    from kernel.term import Forall, Not, Or, And
    x, b1 = _qbody(g)
    _, b2 = _qbody(g, x)
    k = g.rng.random()
    if k < 0.5:
        body, cl = And(b1, b2), g.rng.choice([b1, b2])
        if cl.is_conj() or cl.is_implies() or cl.is_not() and not cl.arg.is_comb():
            return None
        if not (cl.is_disj() or (cl.head.is_var())):
            return None
    else:
        p = g.rng.choice(g.bools)
        body, cl = Or(p, And(g.P(x), g.Q(x, x))), Or(p, g.rng.choice([g.P(x), g.Q(x, x)]))
    return inst('qnt_cnf', [Or(Not(Forall(x, body)), Forall(x, cl))])


@template('qnt_simplify')
def t_qnt_simplify(g):
    from kernel.term import Forall, Exists, Eq, true, false, Var
    x = Var('a', g.U)
    c = g.rng.choice([true, false])
    q = g.rng.choice([Forall, Exists])
    return inst('qnt_simplify', [Eq(q(x, c), c)])


@template('qnt_join')
def t_qnt_join(g):
    from kernel.term import Forall, Eq, Var
    x, body = _qbody(g, Var('a', g.U))
    y = Var('b', g.U)
    t = Forall(x, Forall(y, body))
    return inst('qnt_join', [Eq(t, t)])


@template('qnt_rm_unused')
def t_qnt_rm_unused(g):
    from kernel.term import Forall, Exists, Eq, Var
    x, body = _qbody(g, Var('a', g.U))
    y = Var('b', g.U)
    q = g.rng.choice([Forall, Exists])
    if g.rng.random() < 0.5:
        return inst('qnt_rm_unused', [Eq(q(x, q(y, body)), q(x, body))])
    return inst('qnt_rm_unused', [Eq(q(y, q(x, body)), q(x, body))])


@template('onepoint')
def t_onepoint(g):
    """(Q a. body[a = t ...]) = body[t/a]   with the context a -> t (the right side is the plain substitution
    instance, as check_onepoint expects)."""
    from kernel.term import Forall, Exists, Eq, Var, Implies, And, Or, Not
    x, body = _qbody(g, Var('a', g.U))
    t = g.rng.choice(g.us)
    k = g.rng.randrange(4)
    eq = Eq(x, t) if g.rng.random() < 0.7 else Eq(t, x)
    if k == 0:
        lb = Implies(eq, body)
        goal = Eq(Forall(x, lb), _subst_var(lb, x, t))
    elif k == 1:
        lb = Or(Not(eq), body)
        goal = Eq(Forall(x, lb), _subst_var(lb, x, t))
    elif k == 2:
        lb = And(eq, body)
        goal = Eq(Exists(x, lb), _subst_var(lb, x, t))
    else:
        y = Var('b', g.U)
        lb = Implies(eq, And(body, g.Q(x, y)))
        goal = Eq(Forall(x, y, lb), Forall(y, _subst_var(lb, x, t)))
    return inst('onepoint', [goal], ctx={x.name: t})


@template('refl')
def t_refl(g):
    from kernel.term import Eq, Var
    x = Var('a', g.U)
    t = g.uterm(1)
    if g.rng.random() < 0.5:
        return inst('refl', [Eq(x, t)], ctx={'a': t})
    return inst('refl', [Eq(t, x)], ctx={'a': t})


@template('bind')
def t_bind(g):
    """premise  a = b |- phi(a) <-> psi(b)  with psi a (trivially) equivalent rewriting of phi."""
    from kernel.term import Forall, Exists, Eq, Var, Not, And, true
    from kernel.thm import Thm
    x, body = _qbody(g, Var('a', g.U))
    rename = g.rng.random() < 0.6
    y = Var('b', g.U) if rename else x
    k = g.rng.randrange(3)
    rb = [lambda: body, lambda: Not(Not(body)), lambda: And(body, true)][k]()
    rb = _subst_var(rb, x, y)
    prem = Thm(Eq(body, rb), Eq(x, y)) if (rename or g.rng.random() < 0.5) else Thm(Eq(body, rb))
    q = g.rng.choice([Forall, Exists])
    return inst('bind', [Eq(q(x, body), q(y, rb))], [prem], ctx={x.name: y})


@template('sko_ex')
def t_sko_ex(g):
    from kernel.term import Exists, Eq, Var
    from kernel.thm import Thm
    from logic.logic import mk_some
    x, body = _qbody(g, Var('a', g.U))
    eps = mk_some(x, body)
    rhs = _subst_var(body, x, eps)
    prem = Thm(Eq(body, rhs), Eq(x, eps))
    return inst('sko_ex', [Eq(Exists(x, body), rhs)], [prem], ctx={x.name: eps})


@template('sko_forall')
def t_sko_forall(g):
    from kernel.term import Forall, Eq, Var, Not
    from kernel.thm import Thm
    from logic.logic import mk_some
    x, body = _qbody(g, Var('a', g.U))
    eps = mk_some(x, Not(body))
    rhs = _subst_var(body, x, eps)
    prem = Thm(Eq(body, rhs), Eq(x, eps))
    return inst('sko_forall', [Eq(Forall(x, body), rhs)], [prem], ctx={x.name: eps})


@template('let')
def t_let(g):
    """(let a = t in body(a)) = body(t'),  premises  t = t'  and  a = t' |- body(a) = body(t')."""
    from kernel.term import Eq, Var, Let
    from kernel.thm import Thm
    x, body = _qbody(g, Var('a', g.U))
    t = g.uterm(1)
    if g.rng.random() < 0.5:
        t2 = t
        eqs = []
    else:
        t2 = g.uterm(1)
        eqs = [g.assume(Eq(t, t2))]
    rhs = _subst_var(body, x, t2)
    last = Thm(Eq(body, rhs), Eq(x, t2))
    return inst('let', [Eq(Let(x, t, body), rhs)], eqs + [last])


@template('subproof')
def t_subproof(g):
    from kernel.term import Not, And
    from kernel.thm import Thm
    n = g.rng.choice([1, 2])
    hs = g.forms(n, distinct=True)
    k = g.rng.random()
    concl = And(*hs) if k < 0.4 else (g.rng.choice(hs) if k < 0.7 else And(hs[0], hs[0]))
    prevs = [Thm(h, h) for h in hs] + [Thm(concl, *hs)]
    return inst('subproof', [Not(h) for h in hs] + [concl], prevs)


@template('ite_intro')
def t_ite_intro(g):
    from kernel.term import Eq, And
    from logic.logic import mk_if
    p = g.form(0)
    x, y = g.uterm(1), g.uterm(1)
    t = mk_if(p, x, y)
    lhs = g.rng.choice([g.P(t), g.Q(t, g.rng.choice(g.us)), Eq(g.f(t), g.rng.choice(g.us))])
    return inst('ite_intro', [Eq(lhs, And(lhs, mk_if(p, Eq(x, t), Eq(y, t))))])


@template('bfun_elim')
def t_bfun_elim(g):
    from kernel.term import Var, Forall, Exists, And, Or, true, false
    b = Var('bb', g.B)
    q = g.rng.choice(g.bools)
    if g.rng.random() < 0.5:
        return inst('bfun_elim', [And(Or(false, q), Or(true, q))], [g.assume(Forall(b, Or(b, q)))])
    return inst('bfun_elim', [Or(And(false, q), And(true, q))], [g.assume(Exists(b, And(b, q)))])


@template('conj_pts', 'disj_pts')
def t_pts(g):
    """helpers of ac_simp: from A_i <-> B_i conclude /\\A_i <-> /\\B_i (duplicates removed on the right)"""
    from kernel.term import Eq, Not
    n = g.rng.choice([2, 3])
    ps = g.forms(n, d=0)
    prevs = []
    for p in ps:
        q = g.rng.choice([p, Not(Not(p)), ps[0]])
        prevs.append(g.assume(Eq(p, q)))
    rule = g.rng.choice(['conj_pts', 'disj_pts'])
    return inst(rule, [], prevs)


RULES = sorted(TEMPLATES)


def make(g, rule):
    for _ in range(8):
        fn = g.rng.choice(TEMPLATES[rule])
        try:
            I = fn(g)
        except Exception:
            I = None
        if I is not None:
            return I
    return None


# ====================================================================== mutations (on shadows)
BOOLBIN = ('conj', 'disj', 'implies', 'equals')
CMP = ('less', 'less_eq', 'greater', 'greater_eq')
ARI = ('plus', 'minus', 'times')


def positions(s, path=(), depth=0, out=None):
    """paths to closed proper subterms (including the root)"""
    if out is None:
        out = []
    if S.is_closed(s):
        out.append(path)
    if s[0] == 'comb':
        positions(s[1], path + (1,), depth, out)
        positions(s[2], path + (2,), depth, out)
    elif s[0] == 'abs':
        positions(s[3], path + (3,), depth, out)
    return out


def get_at(s, path):
    for i in path:
        s = s[i]
    return s


def put_at(s, path, new):
    if not path:
        return new
    i = path[0]
    l = list(s)
    l[i] = put_at(s[i], path[1:], new)
    return tuple(l)


def _numeral(s):
    """integer value of a (possibly negated) binary numeral shadow, else None"""
    from vf.oracle_c18_sem import numeral_nat
    if s[0] == 'const' and s[1] in ('zero', 'one'):
        return 0 if s[1] == 'zero' else 1
    if s[0] == 'comb' and s[1][0] == 'const':
        if s[1][1] == 'of_nat':
            return numeral_nat(s[2])
        if s[1][1] == 'uminus':
            v = _numeral(s[2])
            return None if v is None else -v
    return None


def mut_term(g, t, how=None):
    """a syntactically different term obtained from repo term t by one local edit; None if no edit applies."""
    r = g.rng
    sh = S.tm_shadow(t)
    how = how or r.choice(['replace', 'replace', 'head', 'head', 'wrap', 'dropconj', 'negate'])
    pos = positions(sh)
    r.shuffle(pos)
    if how == 'roothead':
        pos = [()] if not (sh[0] == 'comb' and sh[1] == ('const', 'neg', S.fun(S.BOOL, S.BOOL))) or r.random() < 0.5 \
            else [(2,)]
    if how == 'arg':
        # replace one direct argument of the literal's atom (below negations)
        base = ()
        cur = sh
        while cur[0] == 'comb' and cur[1] == ('const', 'neg', S.fun(S.BOOL, S.BOOL)):
            base += (2,)
            cur = cur[2]
        h, a = S.strip_comb(cur)
        if not a:
            return None
        i = r.randrange(len(a))
        path = base + (1,) * (len(a) - 1 - i) + (2,)
        pos = [path]
        how = 'replace'
    for path in (pos if how in ('flipconst', 'bumpnum') else pos[:12]):
        sub = get_at(sh, path)
        try:
            T = S.typeof(sub)
        except S.ShadowError:
            continue
        if T[0] == 'tc' and T[1] == 'fun':
            continue
        new = None
        if how == 'replace':
            rep = g.of_type(S.to_repo_type(T), 1)
            if rep is not None:
                new = S.tm_shadow(rep)
        elif how == 'negate' and T == S.BOOL:
            h, a = S.strip_comb(sub)
            if h[0] == 'const' and h[1] == 'neg' and len(a) == 1:
                new = a[0]
            else:
                new = S.mk_comb(('const', 'neg', S.fun(S.BOOL, S.BOOL)), sub)
        elif how == 'head':
            h, a = S.strip_comb(sub)
            if h[0] == 'const' and len(a) == 2:
                for grp in (BOOLBIN, CMP, ARI):
                    if h[1] in grp:
                        if h[1] == 'equals' and S.typeof(a[0]) != S.BOOL:
                            break
                        alt = [n for n in grp if n != h[1]]
                        nm = r.choice(alt)
                        hT = h[2] if nm != 'equals' else S.funs(S.BOOL, S.BOOL, S.BOOL)
                        new = S.mk_comb(('const', nm, hT), *a)
                        break
            elif h[0] == 'const' and h[1] in ('all', 'exists') and len(a) == 1:
                new = S.mk_comb(('const', 'exists' if h[1] == 'all' else 'all', h[2]), *a)
        elif how == 'wrap' and T == S.BOOL:
            h, a = S.strip_comb(sub)
            if h[0] == 'const' and h[1] == 'neg' and len(a) == 1:
                # keep .arg, change the head:  ~t  ->  c & t | c --> t | c | t
                c = S.tm_shadow(g.form(0))
                nm = r.choice(['conj', 'implies', 'disj'])
                new = S.mk_comb(('const', nm, S.funs(S.BOOL, S.BOOL, S.BOOL)), c, a[0])
        elif how == 'dropconj':
            h, a = S.strip_comb(sub)
            if h[0] == 'const' and h[1] in ('conj', 'disj') and len(a) == 2:
                new = r.choice(a)
        elif how == 'roothead' and T == S.BOOL:
            # the outermost connective (the one a rule inspects): keep the arguments, change the head
            h, a = S.strip_comb(sub)
            B2 = S.funs(S.BOOL, S.BOOL, S.BOOL)
            if h[0] == 'const' and h[1] == 'neg' and len(a) == 1:
                c = S.tm_shadow(g.form(0))
                new = S.mk_comb(('const', r.choice(['conj', 'implies', 'disj']), B2), c, a[0])
            elif h[0] == 'const' and h[1] in BOOLBIN and len(a) == 2 and S.typeof(a[0]) == S.BOOL:
                new = S.mk_comb(('const', r.choice([n for n in BOOLBIN if n != h[1]]), B2), *a)
            elif h[0] == 'const' and h[1] == 'IF' and len(a) == 3:
                new = S.mk_comb(('const', 'conj', B2), a[0], S.mk_comb(('const', 'disj', B2), a[1], a[2]))
        elif how == 'flipconst':
            if sub == ('const', 'true', S.BOOL):
                new = ('const', 'false', S.BOOL)
            elif sub == ('const', 'false', S.BOOL):
                new = ('const', 'true', S.BOOL)
        elif how == 'bumpnum' and T in (S.INT, S.REAL):
            v = _numeral(sub)
            if v is not None:
                from kernel.term import Int, Real
                nv = v + r.choice([-1, 1])
                new = S.tm_shadow(Int(nv) if T == S.INT else Real(nv))
        if new is not None and new != sub:
            try:
                return S.to_repo_term(put_at(sh, path, new))
            except Exception:
                continue
    return None


def mutate(g, I):
    try:
        return _mutate(g, I)
    except Exception:
        return None


def _mutate(g, I):
    """one near-miss of a correct instance (a new dict) or None."""
    from kernel.term import Not, Int, Real
    from kernel.thm import Thm
    r = g.rng
    J = dict(I)
    J['prevs'] = list(I['prevs'])
    cl = list(I['cl'])
    kinds = ['drop_lit', 'add_lit', 'neg_lit', 'swap_lits', 'lit_replace', 'lit_head', 'lit_wrap', 'lit_dropconj',
             'lit_negate_inside', 'lit_flipconst', 'lit_bumpnum', 'lit_bumpnum', 'lit_arg', 'lit_arg',
             'lit_roothead', 'lit_roothead']
    if I['prevs']:
        kinds += ['prem_replace', 'prem_head', 'prem_dropconj', 'prem_wrap', 'drop_prem', 'swap_prems', 'dup_prem',
                  'prem_replace', 'prem_dropconj', 'prem_roothead', 'prem_roothead', 'prem_roothead']
    if I['rule'].endswith('_simplify') or I['rule'].startswith('la_'):
        kinds += ['lit_flipconst'] * 3 + ['lit_bumpnum'] * 3
    if I['rule'] == 'la_generic':
        kinds += ['coeff'] * 6 + ['coeff0_lit'] * 6
    if I['rule'] == 'forall_inst':
        kinds += ['inst_arg'] * 4
    if I['ctx'] is not None:
        kinds += ['ctx'] * 4
    if I['sizes'] is not None:
        kinds += ['sizes', 'pivot', 'pivot', 'pivot']
    kind = r.choice(kinds)
    J['kind'] = kind
    if kind == 'drop_lit':
        if len(cl) < 1:
            return None
        del cl[r.randrange(len(cl))]
    elif kind == 'add_lit':
        cl.insert(r.randrange(len(cl) + 1), g.form(1))
    elif kind == 'neg_lit':
        if not cl:
            return None
        i = r.randrange(len(cl))
        cl[i] = cl[i].arg if cl[i].is_not() else Not(cl[i])
    elif kind == 'swap_lits':
        if len(cl) < 2:
            return None
        i, j = r.sample(range(len(cl)), 2)
        if cl[i] == cl[j]:
            return None
        cl[i], cl[j] = cl[j], cl[i]
    elif kind.startswith('lit_'):
        if not cl:
            return None
        i = r.randrange(len(cl))
        how = {'lit_replace': 'replace', 'lit_head': 'head', 'lit_wrap': 'wrap', 'lit_dropconj': 'dropconj',
               'lit_negate_inside': 'negate', 'lit_flipconst': 'flipconst', 'lit_bumpnum': 'bumpnum',
               'lit_arg': 'arg', 'lit_roothead': 'roothead'}[kind]
        m = mut_term(g, cl[i], how)
        if m is None:
            return None
        cl[i] = m
    elif kind.startswith('prem_'):
        j = r.randrange(len(J['prevs']))
        th = J['prevs'][j]
        how = {'prem_replace': 'replace', 'prem_head': 'head', 'prem_dropconj': 'dropconj', 'prem_wrap': 'wrap',
               'prem_roothead': 'roothead'}[kind]
        m = mut_term(g, th.prop, how)
        if m is None:
            return None
        # the mutated premise is again an assumption-like sequent (hyps that contained the old prop now contain the new one)
        hy = tuple(m if h == th.prop else h for h in th.hyps)
        if th.prop not in th.hyps and th.hyps:
            hy = tuple(th.hyps)       # context hypotheses (x = t) stay
            J['prevs'][j] = Thm(m, hy)
        else:
            J['prevs'][j] = Thm(m, hy) if hy else Thm(m, m)
    elif kind == 'drop_prem':
        j = r.randrange(len(J['prevs']))
        del J['prevs'][j]
        if J['sizes'] is not None:
            J['sizes'] = [s for k, s in enumerate(J['sizes']) if k != j]
    elif kind == 'swap_prems':
        if len(J['prevs']) < 2:
            return None
        i, j = r.sample(range(len(J['prevs'])), 2)
        J['prevs'][i], J['prevs'][j] = J['prevs'][j], J['prevs'][i]
        if J['sizes'] is not None:
            sz = list(J['sizes'])
            sz[i], sz[j] = sz[j], sz[i]
            J['sizes'] = sz
    elif kind == 'dup_prem':
        j = r.randrange(len(J['prevs']))
        J['prevs'].insert(j, J['prevs'][j])
        if J['sizes'] is not None:
            sz = list(J['sizes'])
            sz.insert(j, sz[j])
            J['sizes'] = sz
    elif kind == 'coeff':
        cs = list(I['step_args'][0])
        if not cs:
            return None
        i = r.randrange(len(cs))
        T = cs[i].get_type()
        mk = Int if T == g.I else Real
        cs[i] = mk(r.choice([0, 0, 1, 2, 3, 5, -1]))
        if cs[i] == I['step_args'][0][i]:
            return None
        if r.random() < 0.3:
            cs = [mk(0) for _ in cs]
        J['step_args'] = (tuple(cs),)
    elif kind == 'coeff0_lit':
        # all Farkas coefficients zero AND one literal changed: nothing is left to justify the clause
        cs = list(I['step_args'][0])
        if not cs or not cl:
            return None
        mk = Int if cs[0].get_type() == g.I else Real
        J['step_args'] = (tuple(mk(0) for _ in cs),)
        i = r.randrange(len(cl))
        k2 = r.choice(['neg', 'head', 'replace', 'replace'])
        if k2 == 'neg':
            cl[i] = cl[i].arg if cl[i].is_not() else Not(cl[i])
        else:
            m = mut_term(g, cl[i], k2)
            if m is None:
                return None
            cl[i] = m
    elif kind == 'inst_arg':
        sa = list(I['step_args'])
        i = r.randrange(len(sa))
        sa[i] = (sa[i][0], g.uterm(1))
        if sa[i][1] == I['step_args'][i][1]:
            return None
        J['step_args'] = tuple(sa)
    elif kind == 'ctx':
        ctx = dict(I['ctx'])
        if not ctx:
            return None
        k = r.choice(list(ctx))
        c = r.random()
        if c < 0.5:
            m = mut_term(g, ctx[k], 'replace') if ctx[k].is_comb() else g.rng.choice(g.us)
            if m is None or m == ctx[k]:
                return None
            ctx[k] = m
        elif c < 0.75:
            ctx[r.choice(['b', 'c', 'u0'])] = ctx.pop(k)
        else:
            del ctx[k]
        J['ctx'] = ctx
    elif kind == 'sizes':
        sz = list(I['sizes'])
        i = r.randrange(len(sz))
        sz[i] = max(1, sz[i] + r.choice([-1, 1]))
        if sz == list(I['sizes']):
            return None
        J['sizes'] = sz
    elif kind == 'pivot':
        # wrong pivot: replace the complement literal in one premise clause by an unrelated literal
        j = r.randrange(len(J['prevs']))
        th = J['prevs'][j]
        m = mut_term(g, th.prop, 'replace')
        if m is None:
            return None
        J['prevs'][j] = Thm(m, m)
    J['cl'] = tuple(cl)
    return J


# ====================================================================== targeted near-misses
# Wrong instances that violate a side condition of the Alethe rule which no single local edit of a correct
# instance produces (both sides of an equation have to change consistently).
HOSTILE = {}


def hostile(rule):
    def deco(fn):
        HOSTILE.setdefault(rule, []).append(fn)
        return fn
    return deco


def _h(I, name):
    I['kind'] = 'hostile:' + name
    return I


@hostile('qnt_simplify')
def h_qnt_simplify(g):
    """(Q a. phi(a)) = phi(a) with a free on the right (Alethe: phi must be true/false)"""
    from kernel.term import Forall, Exists, Eq
    x, body = _qbody(g)
    q = g.rng.choice([Forall, Exists])
    return _h(inst('qnt_simplify', [Eq(q(x, body), body)]), 'body-not-constant')


@hostile('qnt_cnf')
def h_qnt_cnf(g):
    """conclusion generalises a variable that is free in the premise"""
    from kernel.term import Forall, Not, Or, Var
    z = Var('a', g.U)
    body = g.rng.choice([g.P(z), g.Q(z, g.rng.choice(g.us))])
    return _h(inst('qnt_cnf', [Or(Not(body), Forall(z, body))]), 'generalises-free-variable')


@hostile('implies_simplify')
def h_implies_simplify(g):
    from kernel.term import Implies, Or, Eq
    a, b, c = g.forms(3)
    return _h(inst('implies_simplify', [Eq(Implies(Implies(Implies(a, b), b), c), Or(a, b))]), 'case9-shape')


@hostile('unary_minus_simplify')
def h_unary_minus(g):
    from kernel.term import Eq
    T = g.I if g.rng.random() < 0.5 else g.R
    a, b = g.arith(T, 0), g.arith(T, 0)
    return _h(inst('unary_minus_simplify', [Eq(-(a - b), b)]), 'binary-minus')


@hostile('eq_simplify')
def h_eq_simplify(g):
    from kernel.term import Eq, Not, false
    a, b = g.uterm(1), g.uterm(1)
    if a == b:
        return None
    if g.rng.random() < 0.5:
        return _h(inst('eq_simplify', [Eq(Eq(a, b), false)]), 'distinct-terms-not-constants')
    return _h(inst('eq_simplify', [Eq(Not(Eq(a, b)), false)]), 'negated-distinct-terms')


@hostile('onepoint')
def h_onepoint(g):
    """the equation in the body fixes a to s, the context (and the right side) use t"""
    from kernel.term import Forall, Exists, Eq, Var, Implies, And
    x, body = _qbody(g, Var('a', g.U))
    s, t = g.rng.sample(g.us, 2)
    if g.rng.random() < 0.5:
        lb = Implies(Eq(x, s), body)
        goal = Eq(Forall(x, lb), _subst_var(lb, x, t))
    else:
        lb = And(Eq(x, s), body)
        goal = Eq(Exists(x, lb), _subst_var(lb, x, t))
    return _h(inst('onepoint', [goal], ctx={x.name: t}), 'equation-for-another-term')


@hostile('eq_congruent_pred')
def h_eq_congruent_pred(g):
    """fewer equalities than argument positions (ternary predicate, two equalities)"""
    from kernel.term import Eq, Not, Var
    from kernel.type import TFun
    T3 = Var('T3', TFun(g.U, g.U, g.U, g.B))
    a, b, c, d = [g.uterm(1) for _ in range(4)]
    e1, e2 = g.rng.sample(g.us, 2)
    return _h(inst('eq_congruent_pred', [Not(Eq(a, b)), Not(Eq(c, d)), Not(T3(a, c, e1)), T3(b, d, e2)]),
              'missing-equality')


@hostile('eq_congruent')
def h_eq_congruent(g):
    from kernel.term import Eq, Not
    a, b, c, d = [g.uterm(1) for _ in range(4)]
    # different function symbols of the same arity on the two sides
    return _h(inst('eq_congruent', [Not(Eq(a, b)), Eq(g.f(a), g.g(b, b))]), 'different-heads')


@hostile('bind')
def h_bind(g):
    """the premise was proved under a = c (c a constant), not under the renaming a -> b of the context"""
    from kernel.term import Forall, Exists, Eq, Var
    from kernel.thm import Thm
    x, body = _qbody(g, Var('a', g.U))
    y = Var('b', g.U)
    c = g.rng.choice(g.us)
    rb = _subst_var(body, x, c)
    q = g.rng.choice([Forall, Exists])
    return _h(inst('bind', [Eq(q(x, body), q(y, rb))], [Thm(Eq(body, rb), Eq(x, c))], ctx={x.name: y}),
              'context-hypothesis-mismatch')


@hostile('sko_ex')
def h_sko_ex(g):
    from kernel.term import Exists, Eq, Var
    from kernel.thm import Thm
    from logic.logic import mk_some
    x, body = _qbody(g, Var('a', g.U))
    eps = mk_some(x, body)
    c = g.rng.choice(g.us)
    rhs = _subst_var(body, x, c)
    return _h(inst('sko_ex', [Eq(Exists(x, body), rhs)], [Thm(Eq(body, rhs), Eq(x, c))], ctx={x.name: eps}),
              'context-hypothesis-mismatch')


@hostile('sko_forall')
def h_sko_forall(g):
    from kernel.term import Forall, Eq, Var, Not
    from kernel.thm import Thm
    from logic.logic import mk_some
    x, body = _qbody(g, Var('a', g.U))
    eps = mk_some(x, Not(body))
    c = g.rng.choice(g.us)
    rhs = _subst_var(body, x, c)
    return _h(inst('sko_forall', [Eq(Forall(x, body), rhs)], [Thm(Eq(body, rhs), Eq(x, c))], ctx={x.name: eps}),
              'context-hypothesis-mismatch')


@hostile('let')
def h_let(g):
    """the bound term and the hypothesis under which the body was rewritten are unrelated"""
    from kernel.term import Eq, Var, Let
    from kernel.thm import Thm
    x, body = _qbody(g, Var('a', g.U))
    t, t2 = g.rng.sample(g.us, 2)
    rhs = _subst_var(body, x, t2)
    return _h(inst('let', [Eq(Let(x, t, body), rhs)], [Thm(Eq(body, rhs), Eq(x, t2))]), 'binding-not-justified')


@hostile('subproof')
def h_subproof(g):
    """the last step of the subproof also depends on an outer assumption"""
    from kernel.term import Not, And
    from kernel.thm import Thm
    h = g.form(1)
    outer = g.rng.choice(g.bools)
    concl = And(h, outer)
    return _h(inst('subproof', [Not(h), concl], [Thm(h, h), Thm(concl, h, outer)]), 'outer-hypothesis')


@hostile('la_generic')
def h_la_generic(g):
    from kernel.term import Real
    r1, r2 = g.rng.sample(g.reals, 2)
    return _h(inst('la_generic', [r1 <= Real(g.rng.randint(-2, 2)), r2 < Real(g.rng.randint(-2, 2))],
                   step_args=((Real(0), Real(0)),)), 'zero-coefficients')


@hostile('connective_def')
def h_connective_def(g):
    from kernel.term import Eq, And, Implies
    a, b, c = g.forms(3)
    return _h(inst('connective_def', [Eq(Eq(a, b), And(Implies(a, b), Implies(c, a)))]), 'second-implication')


@hostile('qnt_rm_unused')
def h_qnt_rm_unused(g):
    from kernel.term import Forall, Exists, Eq, Var
    x, body = _qbody(g, Var('a', g.U))
    y = Var('b', g.U)
    return _h(inst('qnt_rm_unused', [Eq(Forall(x, Forall(y, body)), Exists(x, body))]), 'quantifier-kind')


@hostile('th_resolution')
def h_th_resolution(g):
    """claimed clause misses a literal of the resolvent / pivots that do not clash"""
    from kernel.term import Or, Not
    from kernel.thm import Thm
    a, b, c, d = g.rng.sample(g.bools, 4)
    k = g.rng.randrange(3)
    if k == 0:      # a|b , ~a|c  |-  b        (c missing)
        return _h(inst('th_resolution', [b], [Thm(Or(a, b), Or(a, b)), Thm(Or(Not(a), c), Or(Not(a), c))],
                       sizes=[2, 2]), 'literal-missing')
    if k == 1:      # a|b , a|c   |-  b|c      (same polarity)
        return _h(inst('th_resolution', [b, c], [Thm(Or(a, b), Or(a, b)), Thm(Or(a, c), Or(a, c))], sizes=[2, 2]),
                  'same-polarity')
    # assumed disjunction counted as a unit clause:  (a|b) , ~a  |-  b   with sizes (1,1)
    return _h(inst('th_resolution', [b], [Thm(Or(a, b), Or(a, b)), Thm(Not(a), Not(a))], sizes=[1, 1]),
              'disjunction-as-unit')


@hostile('th_resolution')
def h_th_resolution_pivot_returns(g):
    """a chain of three or four premises in which a pivot that was already resolved away comes BACK with the same
    polarity in a later premise: a|b , ~a|c , ~c|a  resolves to  b|a, not to b (variants: more literals, the returning
    pivot in a fourth premise, other premise orders)"""
    from kernel.term import Or, Not
    from kernel.thm import Thm
    r = g.rng
    a, b, c, d, e = r.sample(g.bools, 5)
    cls = [[a, b], [Not(a), c], [Not(c), a]]
    want_missing = a
    claim = [b]
    v = r.randrange(4)
    if v == 1:
        cls = [[a, b, d], [Not(a), c], [Not(c), a, e]]
        claim = [b, d, e]
    elif v == 2:
        cls = [[a, b], [Not(a), c], [Not(c), d], [Not(d), a]]
        claim = [b]
    elif v == 3:
        cls = [[Not(a), b], [a, c], [Not(c), Not(a)]]
        claim = [b]
    prems = []
    for cl_ in cls:
        t = Or(*cl_) if len(cl_) > 1 else cl_[0]
        prems.append(Thm(t, t))
    return _h(inst('th_resolution', claim, prems, sizes=[len(x) for x in cls]), 'resolved-pivot-returns-in-a-later-premise')


def make_hostile(g, rule):
    fns = HOSTILE.get(rule)
    if not fns:
        return None
    try:
        return g.rng.choice(fns)(g)
    except Exception:
        return None


@hostile('la_generic')
def h_la_generic_tight(g):
    """same construction as the correct template, but the positive combination of the rows is exactly
    0 <= 0 (no strict row): the rows are jointly satisfiable, so the clause of their negations is not valid."""
    from kernel.term import Int, Real, Not
    r = g.rng
    T = g.I if r.random() < 0.5 else g.R
    mk = Int if T == g.I else Real
    nv = r.choice([1, 2])
    vs = r.sample(g.ints if T == g.I else g.reals, nv)
    for _ in range(40):
        rows = [[r.randint(-3, 3) for _ in vs]]
        lam = [1]
        rows.append([-c for c in rows[0]])
        lam.append(1)
        if any(c != 0 for c in rows[0]):
            break
    else:
        return None
    b0 = r.randint(-4, 4)
    bs = [b0, -b0]                       # a.x <= b0  and  -a.x <= -b0 : satisfiable (a.x = b0)
    if T == g.I:
        # keep it satisfiable over the integers: make b0 a multiple of every coefficient
        k = 1
        for c in rows[0]:
            if c:
                k *= abs(c)
        bs = [b0 * k, -b0 * k]
    lits = []
    for row, b in zip(rows, bs):
        lits.append(Not(_linterm(g, T, vs, row, 0) <= mk(b)))
    return _h(inst('la_generic', lits, step_args=((mk(1), mk(1)),)), 'tight-combination')


@hostile('la_generic')
def h_la_generic_int_rounding(g):
    """integer rows  k*x >= c1  and  -k*x >= c2  (k >= 2, bounds that are NOT multiples of k, of either sign) chosen so
    that exactly one integer x0 satisfies both: the clause of their negations is not valid.  A checker that tightens
    k*x >= c to the next multiple of k must round towards +infinity for negative c as well; rounding one multiple
    too far makes the (1, 1) combination contradictory."""
    from kernel.term import Int, Not
    r = g.rng
    x = r.choice(g.ints)
    k = r.choice([2, 2, 3, 4, 5])
    x0 = r.randint(-4, 4)
    j1, j2 = r.randint(1, k - 1), r.randint(0, k - 1)
    if r.random() < 0.5:
        j1, j2 = j2, j1
    c1, c2 = k * x0 - j1, -k * x0 - j2          # k*x >= c1 <=> x >= x0 ; -k*x >= c2 <=> x <= x0
    kx, nkx = Int(k) * x, Int(-k) * x
    a1 = Int(c1) <= kx          # the form the checker reads (it refuses >=)
    a2 = Int(c2) <= nkx
    lits = [Not(a1), Not(a2)]
    if r.random() < 0.5:
        lits.reverse()
    return _h(inst('la_generic', lits, step_args=((Int(1), Int(1)),)), 'integer-rounding-of-a-non-multiple-bound')


@hostile('comp_simplify')
def h_comp_simplify(g):
    """comparisons of numerals at the boundary with the wrong truth value"""
    from kernel.term import Eq, Int, Real, true, false
    r = g.rng
    mk = Int if r.random() < 0.5 else Real
    c = r.randint(-5, 5)
    k = r.randrange(4)
    t = [lambda: Eq(mk(c) < mk(c), true), lambda: Eq(mk(c) <= mk(c), false),
         lambda: Eq(mk(c + 1) <= mk(c), true), lambda: Eq(mk(c) < mk(c + 1), false)][k]()
    return _h(inst('comp_simplify', [t]), 'numeral-boundary')


@hostile('eq_transitive')
def h_eq_transitive(g):
    """chain t1 = ... = tn, but the claimed equation has one wrong end (in either orientation), or a link is broken"""
    from kernel.term import Eq, Not
    r = g.rng
    n = r.choice([3, 4])
    ts = []
    while len(ts) < n + 1:
        t = g.uterm(1)
        if t not in ts:
            ts.append(t)
    wrong = ts.pop()
    lits = []
    for i in range(n - 1):
        a, b = ts[i], ts[i + 1]
        if r.random() < 0.3:
            a, b = b, a
        lits.append(Not(Eq(a, b)))
    k = r.randrange(5)
    goal = [lambda: Eq(ts[0], wrong), lambda: Eq(wrong, ts[-1]), lambda: Eq(wrong, ts[0]), lambda: Eq(ts[-1], wrong),
            lambda: Eq(ts[0], ts[-1])][k]()
    if k == 4:
        i = r.randrange(len(lits))
        e = lits[i].arg
        lits[i] = Not(Eq(e.lhs, wrong)) if r.random() < 0.5 else Not(Eq(wrong, e.rhs))
    return _h(inst('eq_transitive', lits + [goal]), 'wrong-end-or-broken-link')


@hostile('trans')
def h_trans(g):
    from kernel.term import Eq
    r = g.rng
    n = r.choice([3, 4])
    ts = []
    while len(ts) < n + 1:
        t = g.uterm(1)
        if t not in ts:
            ts.append(t)
    wrong = ts.pop()
    prevs = []
    for i in range(n - 1):
        a, b = ts[i], ts[i + 1]
        if r.random() < 0.2:
            a, b = b, a
        prevs.append(g.assume(Eq(a, b)))
    k = r.randrange(4)
    goal = [lambda: Eq(ts[0], wrong), lambda: Eq(wrong, ts[-1]), lambda: Eq(wrong, ts[0]), lambda: Eq(ts[-1], wrong)][k]()
    return _h(inst('trans', [goal], prevs), 'wrong-end')


@hostile('cong')
def h_cong(g):
    """an argument changes without a premise for it"""
    from kernel.term import Eq
    a, b, c, d = g.rng.sample(g.us, 4)
    return _h(inst('cong', [Eq(g.g(a, c), g.g(b, d))], [g.assume(Eq(a, b))]), 'unjustified-argument')


@hostile('ite_simplify')
def h_ite_simplify(g):
    """nested ite with the same condition collapses - but the right side uses another condition"""
    from kernel.term import Eq
    from logic.logic import mk_if
    p, q = g.forms(2, d=0, distinct=True)
    x, y, z = g.uterm(1), g.uterm(1), g.uterm(1)
    if g.rng.random() < 0.5:
        return _h(inst('ite_simplify', [Eq(mk_if(p, mk_if(p, x, y), z), mk_if(q, x, z))]), 'other-condition')
    return _h(inst('ite_simplify', [Eq(mk_if(p, x, mk_if(p, y, z)), mk_if(q, x, z))]), 'other-condition')


@hostile('and_neg')
def h_and_neg(g):
    from kernel.term import And, Not
    ps = g.forms(g.rng.choice([3, 4]), distinct=True)
    k = g.rng.randrange(1, len(ps))
    return _h(inst('and_neg', [And(*ps)] + [Not(p) for p in ps[:k]]), 'clause-truncated')


@hostile('not_and')
def h_not_and(g):
    from kernel.term import And, Not
    ps = g.forms(g.rng.choice([2, 3, 4]), distinct=True)
    k = g.rng.randrange(1, len(ps))
    return _h(inst('not_and', [Not(p) for p in ps[:k]], [g.assume(Not(And(*ps)))]), 'clause-truncated')


@hostile('ac_simp')
def h_ac_simp(g):
    """sides agree up to associativity except for an arithmetic operator inside one conjunct"""
    from kernel.term import Eq, And, Or, Int
    op = g.rng.choice([And, Or])
    a, b = g.rng.sample(g.bools, 2)
    x, y = g.rng.sample(g.ints, 2)
    c = Int(g.rng.randint(1, 5))
    return _h(inst('ac_simp', [Eq(op(op(a, Eq(x + y, c)), b), op(a, Eq(x - y, c), b))]), 'operator-differs')


@hostile('implies')
def h_implies(g):
    """premise is not an implication (only its two arguments are read)"""
    from kernel.term import And, Or, Eq, Not
    a, b = g.forms(2, d=0, distinct=True)
    op = g.rng.choice([And, Or, Eq])
    return _h(inst('implies', [Not(a), b], [g.assume(op(a, b))]), 'premise-head')
