"""C11 generator of item descriptions (JSON dicts as in library/*.json) over the signature of theory `list`
(logic, nat, function, set, list).  Text is produced directly (fully parenthesised), so the generator does not
depend on the repo's printer; the oracles judge whatever the repo's parser made of the text.

A case is a short sequence of item descriptions applied one after the other to a copy of the base theory; every
description carries `_attack` (list of tags of the hostile features put in on purpose; empty = meant to be
well-formed) and `_family`.  Keys starting with '_' are removed before the description reaches the repo.
"""
from vf import shadow as S

BOOL, NAT = S.BOOL, S.NAT
TA, TB, TZ = ('tv', 'a'), ('tv', 'b'), ('tv', 'zz')


def lst(T):
    return ('tc', 'list', (T,))


def st(T):
    return ('tc', 'set', (T,))


def is_fun(T):
    return T[0] == 'tc' and T[1] == 'fun'


def strip_fun(T):
    args = []
    while is_fun(T):
        args.append(T[2][0])
        T = T[2][1]
    return args, T


def ty_text(T, uni=False, top=True):
    k = T[0]
    if k == 'tv':
        return "'" + T[1]
    if k == 'stv':
        return "?'" + T[1]
    if T[1] == 'fun':
        s = '%s %s %s' % (ty_text(T[2][0], uni, False), '⇒' if uni else '=>', ty_text(T[2][1], uni, True))
        return s if top else '(' + s + ')'
    if not T[2]:
        return T[1]
    if len(T[2]) == 1:
        return '%s %s' % (ty_text(T[2][0], uni, False), T[1])
    return '(%s) %s' % (', '.join(ty_text(a, uni, True) for a in T[2]), T[1])


ATTRS = ['hint_rewrite', 'hint_backward', 'hint_forward', 'hint_resolve', 'hint_backward1', 'var_induct', 'hint_rewrite_sym']
UNI = {'-->': '⟶', '<-->': '⟷', '&': '∧', '|': '∨', '~': '¬', '!': '∀', '?': '∃', '%': 'λ', 'Mem': '∈', 'Un': '∪', 'Int': '∩',
       '<=': '≤', '=>': '⇒'}


class Gen:
    def __init__(self, rng):
        self.rng = rng
        self.n = 0
        self.tvars = []        # type variables an expression may mention
        self.uni = False

    def fresh(self, stem='c'):
        self.n += 1
        return '%s%d' % (stem, self.n)

    def op(self, o):
        return UNI[o] if self.uni and o in UNI else o

    # ------------------------------------------------------------ types
    def elem_type(self, env):
        c = [NAT, NAT, BOOL] + list(self.tvars) + [U for _, U in env if not is_fun(U)]
        return self.rng.choice(c)

    def rand_type(self, depth=1):
        r = self.rng
        base = [NAT, NAT, BOOL] + list(self.tvars) * 2
        T = r.choice(base)
        if depth > 0:
            x = r.random()
            if x < 0.2:
                return lst(self.rand_type(depth - 1))
            if x < 0.35:
                return st(self.rand_type(depth - 1))
            if x < 0.55:
                return S.fun(self.rand_type(depth - 1), self.rand_type(0))
        return T

    # ------------------------------------------------------------ expressions (text) of a given type
    def literal(self, T):
        r = self.rng
        if T == BOOL:
            return r.choice(['true', 'false'])
        if T == NAT:
            return '(%s::nat)' % r.choice(['0', '1', '2', '3', '7', '12'])
        if T[0] == 'tc' and T[1] == 'list':
            return '([]::%s)' % ty_text(T, self.uni)
        if T[0] == 'tc' and T[1] == 'set':
            return '(%s::%s)' % (r.choice(['{}', 'univ', '∅' if self.uni else '{}']), ty_text(T, self.uni))
        return None

    def binder_name(self, env):
        r = self.rng
        if env and r.random() < 0.12:
            n = r.choice(env)[0]
            return n if n.isidentifier() else 'z'
        return r.choice(['z', 'u', 'w', 'k', 'z1', 'i', 'j'])

    def expr(self, T, env, d):
        """text of an expression of type T over the variables env = [(name, type)]"""
        r = self.rng
        vs = [n for n, U in env if U == T]
        apps = []
        for n, U in env:
            if is_fun(U):
                a, res = strip_fun(U)
                for k in range(1, len(a) + 1):
                    if S.funs(*(a[k:] + [res])) == T:
                        apps.append((n, a[:k]))
        if d <= 0 or r.random() < 0.2:
            opts = []
            if vs:
                opts += ['var'] * 3
            if self.literal(T) is not None:
                opts.append('lit')
            if apps and d > -2:
                opts.append('app')
            if not opts:
                if is_fun(T):
                    z = self.binder_name(env)
                    return '(%s%s::%s. %s)' % (self.op('%'), z, ty_text(T[2][0], self.uni), self.expr(T[2][1], [(z, T[2][0])] + [e for e in env if e[0] != z], d - 1))
                return '(SOME %s::%s. true)' % (self.binder_name([]), ty_text(T, self.uni))
            c = r.choice(opts)
            if c == 'var':
                return r.choice(vs)
            if c == 'lit':
                return self.literal(T)
            n, a = r.choice(apps)
            return '(%s %s)' % (n, ' '.join(self.expr(U, env, d - 1) for U in a))
        if T == BOOL:
            c = r.choice(['eq', 'eq', 'less', 'le', 'conj', 'disj', 'imp', 'neg', 'iff', 'all', 'ex', 'mem', 'pred', 'if', 'var', 'app', 'sub'])
            if c == 'eq':
                U = self.elem_type(env)
                if U == BOOL:
                    return '(%s %s %s)' % (self.expr(BOOL, env, d - 1), self.op('<-->'), self.expr(BOOL, env, d - 1))
                return '(%s = %s)' % (self.expr(U, env, d - 1), self.expr(U, env, d - 1))
            if c in ('less', 'le'):
                return '(%s %s %s)' % (self.expr(NAT, env, d - 1), '<' if c == 'less' else self.op('<='), self.expr(NAT, env, d - 1))
            if c in ('conj', 'disj', 'imp', 'iff'):
                o = {'conj': '&', 'disj': '|', 'imp': '-->', 'iff': '<-->'}[c]
                return '(%s %s %s)' % (self.expr(BOOL, env, d - 1), self.op(o), self.expr(BOOL, env, d - 1))
            if c == 'neg':
                return '(%s(%s))' % (self.op('~'), self.expr(BOOL, env, d - 1))
            if c in ('all', 'ex'):
                U = self.elem_type(env) if r.random() < 0.8 else self.rand_type(1)
                z = self.binder_name(env)
                return '(%s%s::%s. %s)' % (self.op('!' if c == 'all' else '?'), z, ty_text(U, self.uni),
                                           self.expr(BOOL, [(z, U)] + [e for e in env if e[0] != z], d - 1))
            if c == 'mem':
                U = self.elem_type(env)
                if U == BOOL:
                    U = NAT
                return '(%s %s %s)' % (self.expr(U, env, d - 1), self.op('Mem'), self.expr(st(U), env, d - 1))
            if c == 'sub':
                U = self.elem_type(env)
                return '(%s Sub %s)' % (self.expr(st(U), env, d - 1), self.expr(st(U), env, d - 1))
            if c == 'pred':
                k = r.choice(['even', 'finite', 'distinct'])
                if k == 'even':
                    return '(even %s)' % self.expr(NAT, env, d - 1)
                U = self.elem_type(env)
                return '(%s %s)' % (k, self.expr(st(U) if k == 'finite' else lst(U), env, d - 1))
            if c == 'if':
                return '(if %s then %s else %s)' % (self.expr(BOOL, env, d - 1), self.expr(BOOL, env, d - 1), self.expr(BOOL, env, d - 1))
            return self.expr(T, env, 0)
        if T == NAT:
            c = r.choice(['plus', 'times', 'suc', 'len', 'card', 'if', 'minus', 'the', 'var', 'app'])
            if c in ('plus', 'times', 'minus'):
                return '(%s %s %s)' % (self.expr(NAT, env, d - 1), {'plus': '+', 'times': '*', 'minus': '-'}[c], self.expr(NAT, env, d - 1))
            if c == 'suc':
                return '(Suc %s)' % self.expr(NAT, env, d - 1)
            if c == 'len':
                return '(length %s)' % self.expr(lst(self.elem_type(env)), env, d - 1)
            if c == 'card':
                return '(card %s)' % self.expr(st(self.elem_type(env)), env, d - 1)
            if c == 'if':
                return '(if %s then %s else %s)' % (self.expr(BOOL, env, d - 1), self.expr(NAT, env, d - 1), self.expr(NAT, env, d - 1))
            if c == 'the':
                z = self.binder_name(env)
                return '(%s %s::nat. %s)' % (r.choice(['THE', 'SOME']), z, self.expr(BOOL, [(z, NAT)] + [e for e in env if e[0] != z], d - 1))
            return self.expr(T, env, 0)
        if T[0] == 'tc' and T[1] == 'list':
            U = T[2][0]
            c = r.choice(['cons', 'append', 'rev', 'lit2', 'var'])
            if c == 'cons':
                return '(%s # %s)' % (self.expr(U, env, d - 1), self.expr(T, env, 0))
            if c == 'append':
                return '(%s @ %s)' % (self.expr(T, env, 0), self.expr(T, env, 0))
            if c == 'rev':
                return '(rev %s)' % self.expr(T, env, d - 1)
            if c == 'lit2':
                return '([%s, %s]::%s)' % (self.expr(U, env, d - 1), self.expr(U, env, d - 1), ty_text(T, self.uni))
            return self.expr(T, env, 0)
        if T[0] == 'tc' and T[1] == 'set':
            U = T[2][0]
            c = r.choice(['union', 'inter', 'collect', 'sing', 'var'] + (['setof'] if True else []))
            if c in ('union', 'inter'):
                return '(%s %s %s)' % (self.expr(T, env, 0), self.op('Un' if c == 'union' else 'Int'), self.expr(T, env, 0))
            if c == 'collect':
                z = self.binder_name(env)
                return '{%s::%s. %s}' % (z, ty_text(U, self.uni), self.expr(BOOL, [(z, U)] + [e for e in env if e[0] != z], d - 1))
            if c == 'sing':
                return '({%s}::%s)' % (self.expr(U, env, d - 1), ty_text(T, self.uni))
            if c == 'setof':
                return '(set %s)' % self.expr(lst(U), env, d - 1)
            return self.expr(T, env, 0)
        if is_fun(T):
            if r.random() < 0.6 or not vs:
                z = self.binder_name(env)
                return '(%s%s::%s. %s)' % (self.op('%'), z, ty_text(T[2][0], self.uni),
                                           self.expr(T[2][1], [(z, T[2][0])] + [e for e in env if e[0] != z], d - 1))
            return r.choice(vs)
        if T[0] == 'tv':
            if r.random() < 0.4:
                return '(if %s then %s else %s)' % (self.expr(BOOL, env, d - 1), self.expr(T, env, 0), self.expr(T, env, 0))
            return self.expr(T, env, 0)
        return self.expr(T, env, 0)

    # ------------------------------------------------------------ definitions
    OVERLOADED = {'plus': 2, 'minus': 2, 'times': 2, 'zero': 0, 'one': 0, 'less': -2, 'less_eq': -2}
    EXISTING = [('Suc', S.fun(NAT, NAT)), ('even', S.fun(NAT, BOOL)), ('length', S.fun(lst(TA), NAT)), ('rev', S.fun(lst(TA), lst(TA))),
                ('card', S.fun(st(TA), NAT)), ('true', BOOL), ('id_fun', S.fun(TA, TA)), ('fact', S.fun(NAT, NAT))]
    NONVAR = {NAT: ['0', '1', '(Suc n)', '(n + m)', '2', '(0::nat)'], BOOL: ['true', 'false', '(~b)', '(b & b2)'],
              }

    def overload_type(self, name, inst):
        k = self.OVERLOADED[name]
        if k >= 0:
            return S.funs(*([inst] * (k + 1)))
        return S.funs(inst, inst, BOOL)

    def nonvar_arg(self, T):
        r = self.rng
        if T in self.NONVAR:
            return r.choice(self.NONVAR[T])
        if T[0] == 'tc' and T[1] == 'list':
            return r.choice(['[]', '(h # t)', '(l1 @ l2)', 'nil'])
        if T[0] == 'tc' and T[1] == 'set':
            return r.choice(['{}', 'univ', '(s1 Un s2)', 'empty_set'])
        if is_fun(T):
            if T == S.fun(NAT, NAT):
                return r.choice(['Suc', '(%q. q)', 'fact', '(%q. Suc q)'])
            if T == S.fun(NAT, BOOL):
                return r.choice(['even', '(%q. true)'])
            return '(%q. q)' if T[2][0] == T[2][1] else '(%%q. %s)' % (self.literal(T[2][1]) or 'q')
        return '(SOME q. true)'

    def tvar_subterm(self, T):
        """closed text of type T mentioning the type variable 'zz (absent from every constant type generated)"""
        r = self.rng
        if T == BOOL:
            return r.choice(["(!p::'zz. !q. p = q)", "(finite (univ::'zz set))", "((%p::'zz. p) = (%p. p))", "(([]::'zz list) = [])",
                             "(?p::'zz. ?q. ~(p = q))"])
        if T == NAT:
            return r.choice(["(card (univ::'zz set))", "(length ([]::'zz list))", "(if (!p::'zz. !q. p = q) then (0::nat) else 1)"])
        return None

    def gen_def(self, attack=(), name=None, T=None, overloaded_name=None):
        """one `def` description; attack: subset of
        {self, tvar, nonvar, repeat, extra, head, noteq, swap}"""
        r = self.rng
        self.uni = r.random() < 0.4
        self.tvars = r.choice([[], [], [TA], [TA], [TA, TB]])
        if T is None:
            nargs = r.choice([0, 1, 1, 2, 2, 3])
            argTs = [self.rand_type(1) for _ in range(nargs)]
            R = r.choice([BOOL, BOOL, NAT, NAT, self.rand_type(1)])
            if R[0] == 'tv' and R not in [a for a in argTs]:
                R = NAT
            T = S.funs(*(argTs + [R]))
        self.tvars = list(S.type_vars(T))
        allargs, R0 = strip_fun(T)
        k = len(allargs) if r.random() < 0.85 else r.randrange(len(allargs) + 1)   # number of arguments taken on the left
        argTs, R = allargs[:k], S.funs(*(allargs[k:] + [R0]))
        name = name or self.fresh('c')
        pool = ['x', 'y', 'n', 'm', 'f', 'g', 'xs', 's', 'a', 'b', 'p', 'A', 'x1', 'P']
        r.shuffle(pool)
        names = pool[:k]
        attack = set(attack)
        if 'repeat' in attack:
            if k >= 2:
                same = [j for j in range(1, k) if argTs[j] == argTs[0]]
                j = r.choice(same) if same and r.random() < 0.7 else r.randrange(1, k)
                names[j] = names[0]
            else:
                attack.discard('repeat')
        if 'nonvar' in attack and k < 1:
            attack.discard('nonvar')
        env = list(zip(names, argTs))
        args_txt = list(names)
        if 'nonvar' in attack and k >= 1:
            j = r.randrange(k)
            args_txt[j] = self.nonvar_arg(argTs[j])
            env = [e for i, e in enumerate(env) if i != j]
        depth = r.choice([0, 1, 1, 2, 2, 3])
        rhs = self.expr(R, env, depth)
        lhs = ' '.join([name] + args_txt) if 'head' not in attack else None
        selfcall = '(%s)' % ' '.join([name] + [self.expr(U, env, 0) for U in argTs]) if argTs else name
        if 'self' in attack:
            how = r.choice(['neg', 'if', 'conj', 'binder', 'eta', 'plain'])
            if R == BOOL and how in ('neg', 'conj'):
                rhs = '(~%s)' % selfcall if how == 'neg' else '(%s & %s)' % (rhs, selfcall)
            elif R == NAT and how in ('neg', 'conj'):
                rhs = '(Suc %s)' % selfcall
            elif how == 'binder' and R == BOOL and argTs:
                rhs = '(!%s::%s. %s)' % (names[-1] if names else 'z', ty_text(argTs[-1]), selfcall)
            elif how == 'eta' and is_fun(R):
                rhs = '(%%q::%s. %s q)' % (ty_text(R[2][0]), selfcall)
            elif how == 'plain':
                rhs = selfcall
            else:
                rhs = '(if %s then %s else %s)' % (self.expr(BOOL, env, 1), rhs, selfcall)
        if 'tvar' in attack:
            t = self.tvar_subterm(R)
            if t is not None:
                rhs = r.choice(['(%s & %s)', '(%s | %s)', '(%s --> %s)']) % (t, rhs) if R == BOOL else '(%s + %s)' % (rhs, t)
            else:
                rhs = "(if (!p::'zz. !q. p = q) then %s else %s)" % (rhs, self.expr(R, env, 1))
        if 'extra' in attack:
            # an ordinary stray variable, or a SCHEMATIC one: c = ?x makes c equal to everything just the same
            ev = r.choice(['w9', 'v', 'q', 'free', '?w9', '?sx'])
            how = r.choice(['eq', 'bool', 'same'])
            if ev.startswith('?'):
                # schematic variables are written without annotation (their type follows from the position)
                if R == BOOL:
                    rhs = '(%s | %s)' % (rhs, ev)
                elif how == 'same' or R == NAT:
                    rhs = '(if %s then %s else %s)' % (self.expr(BOOL, env, 0), rhs, ev)
                else:
                    rhs = '(if (%s = (0::nat)) then %s else %s)' % (ev, rhs, rhs)
            elif how == 'same' and R[0] != 'tv' and not is_fun(R):
                rhs = '(if %s then %s else (%s::%s))' % (self.expr(BOOL, env, 0), rhs, ev, ty_text(R, self.uni))
            elif how == 'bool' or R == BOOL:
                rhs = '(%s | (%s::bool))' % (rhs, ev) if R == BOOL else '(if (%s::bool) then %s else %s)' % (ev, rhs, rhs)
            else:
                rhs = '(if ((%s::nat) = %s) then %s else %s)' % (ev, ev, rhs, rhs)
        eqs = self.op('<-->') if (R == BOOL and r.random() < 0.8) else '='
        if 'head' in attack:
            how = r.choice(['var', 'other', 'bare'])
            if how == 'var':
                lhs = ' '.join(['hv'] + args_txt)
            elif how == 'other':
                lhs = ' '.join([r.choice(['id_fun', 'Suc', 'even', 'rev'])] + args_txt[:1])
            else:
                lhs = args_txt[0] if args_txt else 'hv'
        prop = '%s %s %s' % (lhs, eqs, rhs)
        if 'swap' in attack:
            prop = '%s %s %s' % (rhs, eqs, lhs)
        if 'noteq' in attack:
            how = r.choice(['forall', 'conj', 'neg', 'imp', 'lhs', 'less'])
            if how == 'forall' and names:
                prop = '!%s. %s' % (names[0], prop)
            elif how == 'conj':
                prop = '(%s) & true' % prop
            elif how == 'neg':
                prop = '~(%s)' % prop
            elif how == 'imp':
                prop = 'true --> (%s)' % prop
            elif how == 'less' and R == NAT:
                prop = '%s < %s' % (lhs, rhs)
            else:
                prop = lhs if R == BOOL else '%s Mem {%s}' % (lhs, rhs)
        d = {'ty': 'def', 'name': name, 'type': ty_text(T, self.uni), 'prop': prop, '_attack': sorted(attack), '_family': 'def'}
        if r.random() < 0.2 and len(prop) > 30:
            cut = prop.rfind(' ', 0, len(prop) // 2)
            if cut > 0:
                d['prop'] = [prop[:cut], prop[cut + 1:]]
        if r.random() < 0.45:
            d['attributes'] = r.sample(ATTRS, r.choice([1, 1, 2]))
        elif r.random() < 0.1:
            d['attributes'] = []
        return d

    # ------------------------------------------------------------ other kinds
    def gen_constant(self, name=None, T=None, overloaded=None):
        r = self.rng
        self.uni = r.random() < 0.4
        self.tvars = r.choice([[], [TA], [TA, TB]])
        T = T or self.rand_type(2)
        d = {'ty': 'def.ax', 'name': name or self.fresh('k'), 'type': ty_text(T, self.uni), '_attack': [], '_family': 'def.ax'}
        if overloaded is None:
            overloaded = r.random() < 0.3
        if overloaded:
            d['overloaded'] = True
        elif r.random() < 0.15:
            d['overloaded'] = False
        return d

    def gen_axiom(self, kind=None, attack=()):
        r = self.rng
        self.uni = r.random() < 0.5
        self.tvars = r.choice([[], [TA], [TA, TB]])
        kind = kind or r.choice(['thm.ax', 'thm', 'thm'])
        nv = r.choice([0, 1, 2, 2, 3, 4])
        pool = ['x', 'y', 'n', 'm', 'f', 'g', 'xs', 's', 'A', 'B', 'P', 'Q', 'x1', 'a', 'b', 't']
        r.shuffle(pool)
        env = [(pool[i], self.rand_type(1)) for i in range(nv)]
        name = self.fresh('ax' if kind == 'thm.ax' else 'th')
        ptype = BOOL
        if 'nonbool' in attack:
            ptype = r.choice([NAT, lst(NAT), S.fun(NAT, BOOL)])
        prop = self.expr(ptype, env, r.choice([1, 2, 2, 3, 4]))
        if prop.startswith('(') and prop.endswith(')') and r.random() < 0.7 and ptype == BOOL:
            inner = prop[1:-1]
            dd, ok = 0, True
            for ch in inner:
                dd += ch == '('
                dd -= ch == ')'
                if dd < 0:
                    ok = False
                    break
            if ok and not inner.startswith(('!', '?', '∀', '∃', '%', 'λ')) or ok and r.random() < 0.5:
                prop = inner
        if 'extravar' in attack:
            prop = '(%s) & undeclared_v' % prop if ptype == BOOL else prop
        if 'existing' in attack:
            name = r.choice(['conjI', 'disjE', 'add_comm', 'nat_induct', 'append_nil'])
        unused = r.random() < 0.15
        vars_ = {n: ty_text(T, self.uni) for n, T in env}
        if unused:
            vars_['unused_v'] = 'nat'
        d = {'ty': kind, 'name': name, 'vars': vars_, 'prop': prop, '_attack': sorted(attack), '_family': kind}
        if r.random() < 0.5:
            d['attributes'] = r.sample(ATTRS, r.choice([1, 1, 2, 3]))
        if len(prop) > 40 and r.random() < 0.3:
            cut = prop.rfind(' ', 0, len(prop) // 2)
            if cut > 0:
                d['prop'] = [prop[:cut], prop[cut + 1:]]
        if kind == 'thm':
            x = r.random()
            if x < 0.3:
                d['steps'] = [{'goal_id': '0', 'method_name': 'sorry'}] if r.random() < 0.5 else [
                    {'goal_id': '0', 'method_name': 'rewrite_goal', 'theorem': 'add_comm'}, {'goal_id': '1', 'method_name': 'z3'}]
                d['num_gaps'] = r.choice([0, 1, 2])
            elif x < 0.55:
                d['proof'] = [{'id': '0', 'rule': 'sorry', 'args': '', 'prevs': [], 'th': '⊢ ' + (prop if isinstance(prop, str) else ' '.join(prop))}]
                d['num_gaps'] = 1
            elif x < 0.65:
                d['num_gaps'] = 0
        return d

    def gen_axtype(self, attack=()):
        r = self.rng
        args = r.choice([[], ['a'], ['a', 'b'], ['b', 'a'], ['a', 'b', 'c']])
        name = self.fresh('ty')
        if 'existing' in attack:
            name = r.choice(['nat', 'list', 'set', 'bool'])
        return {'ty': 'type.ax', 'name': name, 'args': args, '_attack': sorted(attack), '_family': 'type.ax'}

    def gen_datatype(self, attack=()):
        """-> (description, info) ; info: {'name','args','T','constrs':[(name,[argT],[argname])]}"""
        r = self.rng
        self.uni = r.random() < 0.3
        targs = r.choice([[], [], ['a'], ['a'], ['a', 'b']])
        name = self.fresh('dt')
        T = ('tc', name, tuple(('tv', a) for a in targs))
        self.tvars = [('tv', a) for a in targs]
        nc = r.choice([1, 2, 2, 3, 3, 4])
        if 'noconstr' in attack:
            nc = 0
        constrs, info = [], []
        pool = ['x', 'y', 'l', 'r', 'n', 'v', 'f', 'x1', 'xs', 't']
        for i in range(nc):
            cname = self.fresh('C')
            na = 0 if i == 0 else r.choice([0, 1, 1, 2, 2, 3])
            argTs = []
            for _ in range(na):
                x = r.random()
                if x < 0.35:
                    argTs.append(T)
                elif x < 0.45:
                    argTs.append(lst(T) if r.random() < 0.5 else S.fun(NAT, T))
                else:
                    argTs.append(self.rand_type(1))
            r.shuffle(pool)
            anames = pool[:na]
            if r.random() < 0.1 and na >= 2:
                anames[1] = anames[0] + '1'
            cT = S.funs(*(argTs + [T]))
            entry = {'name': cname, 'args': list(anames), 'type': ty_text(cT, self.uni)}
            constrs.append(entry)
            info.append((cname, argTs, list(anames)))
        if constrs:
            j = r.randrange(len(constrs))
            cname, argTs, anames = info[j]
            if 'result' in attack:
                bad = r.choice([NAT, BOOL, lst(NAT)] + ([argTs[0]] if argTs else []))
                constrs[j]['type'] = ty_text(S.funs(*(argTs + [bad])), self.uni)
            if 'fewnames' in attack:
                constrs[j]['type'] = ty_text(S.funs(*([NAT] + argTs + [T])), self.uni)
            if 'manynames' in attack:
                constrs[j]['args'] = anames + ['extra_arg']
            if 'tvar' in attack:
                constrs[j]['type'] = ty_text(S.funs(*([TZ] + argTs + [T])), self.uni)
                constrs[j]['args'] = ['q'] + anames
            if 'arity' in attack and targs:
                constrs[j]['type'] = ty_text(S.funs(*(argTs + [('tc', name, ())])), self.uni)
            if 'dupconstr' in attack and len(constrs) >= 2:
                constrs[j]['name'] = constrs[(j + 1) % len(constrs)]['name']
            if 'existing' in attack:
                constrs[j]['name'] = r.choice(['Suc', 'nil', 'cons', 'true'])
        d = {'ty': 'type.ind', 'name': name, 'args': targs, 'constrs': constrs, '_attack': sorted(attack), '_family': 'type.ind'}
        return d, {'name': name, 'args': targs, 'T': T, 'constrs': info}

    # shapes of a constructor argument that mentions the datatype being defined at ANOTHER instance (non-uniform recursion)
    NONUNIFORM_SHAPES = ['ground', 'ground-bool', 'swapped', 'diagonal', 'nested-self', 'grown', 'constant-args',
                         'under-list', 'under-fun', 'under-list-of-other-instance']

    def other_instance(self, name, targs, shape):
        """-> (type of the argument, True if the argument ITSELF is the datatype at another instance)"""
        r = self.rng
        tv = [('tv', a) for a in targs]
        D = ('tc', name, tuple(tv))
        mk = lambda *xs: ('tc', name, tuple(xs))
        if shape == 'ground':
            return mk(*[NAT] * len(tv)), True
        if shape == 'ground-bool':
            return mk(*([BOOL] + [NAT] * (len(tv) - 1))), True
        if shape == 'swapped' and len(tv) == 2:
            return mk(tv[1], tv[0]), True
        if shape == 'diagonal' and len(tv) == 2:
            return mk(tv[0], tv[0]), True
        if shape == 'nested-self':
            return mk(*([D] + tv[1:])), True
        if shape == 'grown':
            return mk(*([r.choice([lst, st])(tv[0])] + tv[1:])), True
        if shape == 'constant-args':
            return mk(*([tv[0]] * (len(tv) - 1) + [r.choice([NAT, BOOL, lst(NAT)])])), True
        if shape == 'under-list':
            return lst(mk(*[NAT] * len(tv))), False
        if shape == 'under-fun':
            return S.fun(NAT, mk(*[NAT] * len(tv))), False
        if shape == 'under-list-of-other-instance':
            return mk(*([lst(mk(*[NAT] * len(tv)))] + tv[1:])), True
        return mk(*[NAT] * len(tv)), True

    def gen_datatype_nonuniform(self, shape=None):
        """datatype with 1-2 type arguments in which some constructor takes the datatype at another type instance.
        -> (description, info, shape) ; the description is meant to be well-formed (no attack): whatever the repo
        generates from it has to be well-typed, and its induction theorem must not apply P to such an argument."""
        r = self.rng
        self.uni = r.random() < 0.3
        targs = r.choice([['a'], ['a'], ['a', 'b'], ['b', 'a']])
        shape = shape or r.choice(self.NONUNIFORM_SHAPES)
        if shape in ('swapped', 'diagonal'):
            targs = r.choice([['a', 'b'], ['b', 'a']])
        name = self.fresh('dt')
        T = ('tc', name, tuple(('tv', a) for a in targs))
        self.tvars = [('tv', a) for a in targs]
        pool = ['y', 'l', 'r', 'n', 'v', 'f', 'x1', 'xs', 't', 'x']
        r.shuffle(pool)
        constrs, info = [], []
        if r.random() < 0.8:                 # a base case (not required: the item is judged, not its inhabitants)
            cname = self.fresh('C')
            argTs = [self.rand_type(0)] if r.random() < 0.3 else []
            info.append((cname, argTs, pool[:len(argTs)]))
        layout = r.choice(['alone', 'after-uniform', 'before-uniform', 'between-uniform', 'after-plain', 'twice', 'two-constructors'])
        other, direct = self.other_instance(name, targs, shape)
        plain = self.rand_type(1)
        argTs = {'alone': [other], 'after-uniform': [T, other], 'before-uniform': [other, T], 'between-uniform': [T, other, T],
                 'after-plain': [plain, other], 'twice': [other, self.other_instance(name, targs, r.choice(self.NONUNIFORM_SHAPES))[0]],
                 'two-constructors': [plain, T]}[layout]
        r.shuffle(pool)
        info.append((self.fresh('C'), argTs, pool[:len(argTs)]))
        if layout == 'two-constructors':
            r.shuffle(pool)
            info.append((self.fresh('C'), [other], pool[:1]))
        if r.random() < 0.3:
            r.shuffle(info)
        for cname, argTs, anames in info:
            constrs.append({'name': cname, 'args': list(anames), 'type': ty_text(S.funs(*(argTs + [T])), self.uni)})
        d = {'ty': 'type.ind', 'name': name, 'args': targs, 'constrs': constrs, '_attack': [], '_family': 'type.ind:non-uniform',
             '_nonuniform': (shape, layout, direct)}
        return d, {'name': name, 'args': targs, 'T': T, 'constrs': info}, shape

    def patterns(self, D, dt_info):
        """constructor patterns of type D: [(pattern text, [(var, type)], [recursive vars])]"""
        if D == NAT:
            return [('0', [], []), ('(Suc n)', [('n', NAT)], ['n'])]
        if D[0] == 'tc' and D[1] == 'list':
            return [('[]', [], []), ('(x # xs)', [('x', D[2][0]), ('xs', D)], ['xs'])]
        out = []
        for cname, argTs, anames in dt_info['constrs']:
            anames = [a if anames.count(a) == 1 else a + str(i) for i, a in enumerate(anames)]
            if argTs:
                out.append(('(%s %s)' % (cname, ' '.join(anames)), list(zip(anames, argTs)), [a for a, U in zip(anames, argTs) if U == D]))
            else:
                out.append((cname, [], []))
        return out

    def gen_fun(self, dt_info=None, attack=()):
        r = self.rng
        self.uni = r.random() < 0.4
        if dt_info is not None and r.random() < 0.7 and dt_info['constrs']:
            D = dt_info['T']
            self.tvars = list(S.type_vars(D))
        else:
            self.tvars = r.choice([[], [TA]])
            D = r.choice([NAT, NAT, lst(NAT)] + ([lst(TA)] if self.tvars else []))
        extraTs = [self.rand_type(1) for _ in range(r.choice([0, 0, 1, 1, 2]))]
        R = r.choice([NAT, BOOL, NAT, BOOL, D])
        name = self.fresh('fn')
        if 'overload' in attack:
            name = r.choice(['plus', 'times'])
            D, extraTs, R = BOOL, [BOOL], BOOL
        T = S.funs(*([D] + extraTs + [R]))
        pats = self.patterns(D, dt_info) if D != BOOL else [('true', [], []), ('false', [], [])]
        enames = ['y', 'z2', 'w'][:len(extraTs)]
        rules = []
        if 'norules' in attack:
            pats = []
        if 'missing' in attack and len(pats) > 1:
            pats = pats[:-1]
        for pat, pvars, rec in pats:
            env = pvars + list(zip(enames, extraTs))
            for v in rec:
                env = env + [('(%s)' % ' '.join([name, v] + enames), R)] * 2
            rhs = self.expr(R, env, r.choice([0, 1, 1, 2]))
            if 'tvar' in attack and self.tvar_subterm(R):
                rhs = '(%s %s %s)' % (rhs, '&' if R == BOOL else '+', self.tvar_subterm(R))
            if 'extra' in attack and R in (NAT, BOOL):
                rhs = '(%s %s %s)' % (rhs, '&' if R == BOOL else '+', r.choice(['stray_v', 'stray_v', '?stray_s']))
            lhs = ' '.join([name, pat] + enames)
            if 'nonconstr' in attack and D == NAT and pat != '0':
                lhs = ' '.join([name, '(n + 2)'] + enames)
            eq = self.op('<-->') if R == BOOL and r.random() < 0.7 else '='
            prop = '%s %s %s' % (lhs, eq, rhs)
            if 'noteq' in attack and len(rules) == 0:
                prop = '%s --> true' % lhs if R == BOOL else '%s < %s' % (lhs, rhs)
            if 'head' in attack and len(rules) == 0:
                prop = '%s %s %s' % (' '.join(['length' if D[1] == 'list' else 'hv', pat]), eq, rhs)
            rules.append({'prop': prop})
        return {'ty': 'def.ind', 'name': name, 'type': ty_text(T, self.uni), 'rules': rules, '_attack': sorted(attack), '_family': 'def.ind'}

    def gen_pred(self, dt_info=None, attack=()):
        r = self.rng
        self.uni = r.random() < 0.4
        self.tvars = r.choice([[], [TA]])
        if dt_info is not None and r.random() < 0.5:
            self.tvars = list(S.type_vars(dt_info['T']))
            argTs = [dt_info['T']] + [self.rand_type(0) for _ in range(r.choice([0, 1]))]
        else:
            argTs = [r.choice([NAT, NAT, lst(NAT)] + list(self.tvars)) for _ in range(r.choice([1, 1, 2, 2, 3]))]
        name = self.fresh('pr')
        T = S.funs(*(argTs + [BOOL]))
        rules = []
        nr = r.choice([1, 2, 2, 3])
        if 'norules' in attack:
            nr = 0
        for i in range(nr):
            pool = ['x', 'y', 'n', 'm', 'a', 'b', 'P', 'u', 'v', '_a1']
            r.shuffle(pool)
            env = [(pool[j], U) for j, U in enumerate(argTs)] + [(pool[len(argTs)], r.choice(argTs))]
            if r.random() < 0.2:
                env.append(('P', BOOL))

            def app(n_args=None):
                a = [self.expr(U, env, r.choice([0, 0, 1])) for U in argTs]
                if n_args is not None:
                    a = a[:n_args]
                return ' '.join([name] + a)
            prems = []
            for _ in range(r.choice([0, 0, 1, 2])):
                prems.append(app() if r.random() < 0.6 else self.expr(BOOL, env, 1))
            concl = app()
            if 'partial' in attack and i == 0 and len(argTs) >= 1:
                concl = app(len(argTs) - 1)
            if 'head' in attack and i == 0:
                concl = self.expr(BOOL, env, 1)
            imp = self.op('-->')
            prop = (' %s ' % imp).join(prems + [concl])
            rname = '%s_r%d' % (name, i + 1)
            if 'duprule' in attack and i == 1:
                rname = '%s_r1' % name
            if 'existing' in attack and i == 0:
                rname = r.choice(['conjI', 'add_comm'])
            rules.append({'name': rname, 'prop': prop})
        return {'ty': 'def.pred', 'name': name, 'type': ty_text(T, self.uni), 'rules': rules, '_attack': sorted(attack), '_family': 'def.pred'}

    def gen_pred_on_overloaded(self, stray=True):
        """an inductive predicate declared on an OVERLOADED library constant at a fresh instance (the prefix order on
        lists as less_eq), optionally with one rule whose conclusion uses the constant at another instance (nat):
        the head of every conclusion must be the constant AT THE DECLARED TYPE"""
        r = self.rng
        self.uni = False
        cname = r.choice(['less_eq', 'less'])
        rules = [{'name': 'vfpre_nil', 'prop': "%s ([]::'a list) ys" % cname},
                 {'name': 'vfpre_cons', 'prop': "%s xs ys --> %s ((x::'a) # xs) (x # ys)" % (cname, cname)}]
        if stray:
            bad = r.choice(["%s (Suc (0::nat)) 0" % cname, "%s (n::nat) (n + 1) --> %s (Suc n) (0::nat)" % (cname, cname),
                            "%s xs ys --> %s (length (xs::'a list)) (0::nat)" % (cname, cname)])
            rules.insert(r.randrange(len(rules) + 1), {'name': 'vfpre_stray', 'prop': bad})
        return {'ty': 'def.pred', 'name': cname, 'type': "'a list => 'a list => bool", 'rules': rules,
                '_attack': ['overload-head'] if stray else [], '_family': 'def.pred'}

    def gen_header(self):
        return {'ty': 'header', 'depth': self.rng.choice([0, 1, 2]), 'name': self.rng.choice(['Section', 'Basic facts', 'x :: y', 'Über ∀'])}

    # ------------------------------------------------------------ overloaded constant on the right-hand side at several types
    MULTI_PATTERNS = {
        'ov-first': ['ov', 'non'], 'ov-last': ['non', 'ov'], 'ov-first-of-three': ['ov', 'non', 'non2'],
        'ov-middle': ['non', 'ov', 'non2'], 'ov-last-of-three': ['non', 'non2', 'ov'], 'ov-twice-around': ['ov', 'non', 'ov'],
        'only-ov': ['ov'], 'only-non': ['non'], 'only-non-two': ['non', 'non2'], 'only-non-repeated': ['non', 'non'],
    }
    MULTI_SHAPES = {'binop': lambda U: S.funs(U, U, U), 'rel': lambda U: S.funs(U, U, BOOL), 'nullary': lambda U: U,
                    'pred': lambda U: S.fun(U, BOOL), 'measure': lambda U: S.fun(U, NAT)}
    EXISTING_SHAPE = {'plus': 'binop', 'minus': 'binop', 'times': 'binop', 'less': 'rel', 'less_eq': 'rel', 'zero': 'nullary', 'one': 'nullary'}
    INFIX = {'plus': '+', 'minus': '-', 'times': '*', 'less': '<', 'less_eq': '<='}

    def closed_of(self, U):
        """closed text of type U (U without type variables, or a list / set of anything)"""
        r = self.rng
        if U == NAT:
            return '(%s::nat)' % r.choice(['1', '2', '3', '7'])
        if U == BOOL:
            return r.choice(['true', 'false'])
        if U[0] == 'tc' and U[1] == 'list':
            return '([]::%s)' % ty_text(U, self.uni)
        if U[0] == 'tc' and U[1] == 'set':
            return '({}::%s)' % ty_text(U, self.uni)
        if is_fun(U):
            return '(%%q::%s. %s)' % (ty_text(U[2][0], self.uni), self.closed_of(U[2][1]))
        return '(SOME q::%s. true)' % ty_text(U, self.uni)

    def occurrence(self, name, shape, U, operands, prefix):
        """text of an application of the overloaded constant `name` at instance U (result: U for binop/nullary, bool for
        rel/pred, nat for measure)"""
        r = self.rng
        e = lambda: r.choice(operands) if operands else self.closed_of(U)
        if shape == 'nullary':
            if name in ('zero', 'one') and not prefix:
                return '(%s::%s)' % ('0' if name == 'zero' else '1', ty_text(U, self.uni))
            return '(%s::%s)' % (name, ty_text(U, self.uni))
        if shape in ('pred', 'measure'):
            return '(%s %s)' % (name, e())
        a, b = e(), e()
        if name in self.INFIX and not prefix:
            return '(%s %s %s)' % (a, self.op(self.INFIX[name]), b)
        return '(%s %s %s)' % (name, a, b)

    def gen_multi(self, pattern_name=None, fresh=None):
        """-> (family, [descriptions]): a definition of an overloaded constant at a fresh instance whose right side mentions
        the constant at several instances, in the order given by the pattern (text order = order of first occurrence)"""
        r = self.rng
        self.uni = r.random() < 0.4
        pattern_name = pattern_name or r.choice(sorted(self.MULTI_PATTERNS))
        pattern = self.MULTI_PATTERNS[pattern_name]
        fresh = r.random() < 0.5 if fresh is None else fresh
        descs = []
        if fresh:
            shape = r.choice(['pred', 'pred', 'rel', 'measure', 'binop', 'nullary'])
            name = self.fresh('ov')
            self.tvars = [TA]
            descs.append({'ty': 'def.ax', 'name': name, 'type': ty_text(self.MULTI_SHAPES[shape](TA), self.uni), 'overloaded': True,
                          '_attack': [], '_family': 'def.ax'})
            insts = [NAT, BOOL, lst(NAT), st(NAT), lst(TA), S.fun(NAT, NAT)]
        else:
            name = r.choice(sorted(self.EXISTING_SHAPE))
            shape = self.EXISTING_SHAPE[name]
            insts = [BOOL, lst(NAT), st(NAT), lst(TA), st(BOOL)]      # nat instances exist in the base theory
        I = r.choice(insts)
        head = lambda U: U[1] if U[0] == 'tc' else None
        others = [U for U in [NAT, BOOL, lst(NAT), st(NAT), lst(BOOL), S.fun(NAT, BOOL)] if head(U) != head(I)]
        r.shuffle(others)
        J, J2 = others[0], others[1]
        T = self.MULTI_SHAPES[shape](I)
        self.tvars = list(S.type_vars(T))
        nargs = {'binop': 2, 'rel': 2, 'nullary': 0, 'pred': 1, 'measure': 1}[shape]
        pool = ['x', 'y', 'n', 'm', 'a', 'b', 's', 'p']
        r.shuffle(pool)
        names = pool[:nargs]
        prefix = r.random() < 0.3
        # an overlapping occurrence: at I itself, or (I polymorphic) at an instance of I
        I_inst = S.tm_ty_subst(('var', 'v', _stv(I)), {'a': NAT})[2] if S.type_vars(I) and r.random() < 0.5 else I
        occs = []
        for k in pattern:
            if k == 'ov':
                ops = names if (I_inst == I and names) else []
                occs.append((self.occurrence(name, shape, I_inst, ops, prefix), I_inst))
            else:
                U = J if k == 'non' else J2
                occs.append((self.occurrence(name, shape, U, [], prefix), U))
        res_of = {'binop': lambda U: U, 'nullary': lambda U: U, 'rel': lambda U: BOOL, 'pred': lambda U: BOOL, 'measure': lambda U: NAT}[shape]
        R = res_of(I)

        def cond(text, U):
            V = res_of(U)
            if V == BOOL:
                return text if r.random() < 0.7 else '(%s(%s))' % (self.op('~'), text)
            return '(%s = %s)' % (text, self.closed_of(V))
        base = names[0] if (names and shape == 'binop') else self.closed_of(R)
        base2 = names[-1] if (names and shape == 'binop') else self.closed_of(R)
        style = r.choice(['if', 'if', 'conn']) if R == BOOL else 'if'
        if style == 'conn':
            rhs = cond(*occs[-1])
            for text, U in reversed(occs[:-1]):
                rhs = '(%s %s %s)' % (cond(text, U), self.op(r.choice(['&', '|', '-->'])), rhs)
        else:
            rhs = base
            for text, U in reversed(occs):
                rhs = '(if %s then %s else %s)' % (cond(text, U), rhs, base2)
        lhs = ' '.join([name] + names)
        eq = self.op('<-->') if R == BOOL and r.random() < 0.7 else '='
        hostile = 'ov' in pattern
        d = {'ty': 'def', 'name': name, 'type': ty_text(T, self.uni), 'prop': '%s %s %s' % (lhs, eq, rhs),
             '_attack': ['selfmulti'] if hostile else [], '_family': 'def', '_multi': pattern_name}
        if r.random() < 0.3:
            d['attributes'] = r.sample(ATTRS, 1)
        descs.append(d)
        return 'def:overloaded:several-occurrences:%s' % ('fresh-constant' if fresh else 'library-constant'), descs

    # ------------------------------------------------------------ scenarios
    DEF_ATTACKS = ['self', 'tvar', 'nonvar', 'repeat', 'extra', 'head', 'noteq', 'swap']

    def scenario(self):
        """-> (family tag, [descriptions])"""
        r = self.rng
        if r.random() < 0.12:
            return self.gen_multi()
        x = r.random()
        if x < 0.16:
            return 'def:good', [self.gen_def() for _ in range(r.choice([1, 2]))]
        if x < 0.40:
            att = [r.choice(self.DEF_ATTACKS)]
            if r.random() < 0.15:
                att.append(r.choice(self.DEF_ATTACKS))
            return 'def:attack', [self.gen_def(attack=tuple(sorted(set(att))))]
        if x < 0.46:
            # redefinition of an existing constant / the same new constant twice
            if r.random() < 0.5:
                n, T = r.choice(self.EXISTING)
                return 'def:existing-name', [self.gen_def(name=n, T=T, attack=r.choice([(), (), ('self',)]))]
            d1 = self.gen_def()
            n = d1['name']
            self.tvars = []
            d2 = self.gen_def(name=n, T=r.choice([None, NAT, S.fun(NAT, BOOL)]))
            d2['_attack'] = sorted(set(d2['_attack']) | {'seqdup'})
            return 'def:same-name-twice', [d1, d2]
        if x < 0.56:
            # overloaded names
            n = r.choice(sorted(self.OVERLOADED))
            how = r.choice(['fresh-instance', 'nat-instance', 'twice', 'overlap', 'general', 'self-other-instance'])
            if how == 'fresh-instance':
                inst = r.choice([BOOL, lst(TA), st(TA), lst(NAT), S.fun(NAT, NAT)])
                return 'def:overloaded:fresh-instance', [self.gen_def(name=n, T=self.overload_type(n, inst))]
            if how == 'nat-instance':
                d = self.gen_def(name=n, T=self.overload_type(n, NAT))
                d['_attack'] = sorted(set(d['_attack']) | {'overdup'})
                return 'def:overloaded:existing-instance', [d]
            if how == 'twice':
                inst = r.choice([BOOL, lst(NAT), st(NAT)])
                d1 = self.gen_def(name=n, T=self.overload_type(n, inst))
                d2 = self.gen_def(name=n, T=self.overload_type(n, inst))
                d2['_attack'] = sorted(set(d2['_attack']) | {'overdup'})
                return 'def:overloaded:same-instance-twice', [d1, d2]
            if how == 'overlap':
                d1 = self.gen_def(name=n, T=self.overload_type(n, lst(TA)))
                d2 = self.gen_def(name=n, T=self.overload_type(n, lst(NAT)))
                d2['_attack'] = sorted(set(d2['_attack']) | {'overdup'})
                ds = [d1, d2]
                if r.random() < 0.5:
                    ds.reverse()
                    d1['_attack'], d2['_attack'] = d2['_attack'], d1['_attack']
                return 'def:overloaded:overlapping-instances', ds
            if how == 'general':
                return 'def:overloaded:general-type', [self.gen_def(name=n, T=self.overload_type(n, TA))]
            d = self.gen_def(name=n, T=self.overload_type(n, lst(NAT)), attack=('self',))
            return 'def:overloaded:self', [d]
        if x < 0.62:
            # own overloaded constant, then instances
            T = r.choice([S.funs(TA, TA, BOOL), S.fun(TA, NAT), TA])
            c = self.gen_constant(T=T, overloaded=True)
            inst1 = r.choice([NAT, BOOL, lst(NAT)])
            sub = lambda U: S.tm_ty_subst(('var', 'x', _stv(T)), {'a': U})[2]
            d1 = self.gen_def(name=c['name'], T=sub(inst1))
            ds = [c, d1]
            if r.random() < 0.6:
                inst2 = r.choice([inst1, inst1, st(NAT)])
                d2 = self.gen_def(name=c['name'], T=sub(inst2))
                if inst2 == inst1:
                    d2['_attack'] = sorted(set(d2['_attack']) | {'overdup'})
                ds.append(d2)
            return 'def.ax:overloaded-then-instances', ds
        if x < 0.68:
            ds = [self.gen_constant()]
            if r.random() < 0.3:
                ds.append(self.gen_constant(name=ds[0]['name']))
            if r.random() < 0.2:
                ds = [self.gen_constant(name=r.choice(['Suc', 'plus', 'nil']), T=r.choice([NAT, S.funs(BOOL, BOOL, BOOL)]), overloaded=False)]
            return 'def.ax', ds
        if x < 0.80:
            att = ()
            y = r.random()
            if y < 0.12:
                att = ('nonbool',)
            elif y < 0.2:
                att = ('extravar',)
            elif y < 0.26:
                att = ('existing',)
            return 'thm', [self.gen_axiom(attack=att)]
        if x < 0.84:
            att = ('existing',) if r.random() < 0.3 else ()
            ds = [self.gen_axtype(attack=att)]
            if r.random() < 0.3:
                ds.append(self.gen_header())
            return 'type.ax', ds
        if x < 0.862:
            # directed: non-uniformly recursive datatypes (an argument is the datatype at another type instance)
            dt, info, shape = self.gen_datatype_nonuniform()
            ds = [dt]
            z = r.random()
            if z < 0.3:
                ds.append(self.gen_fun(info, attack=()))
            elif z < 0.5:
                ds.append(self.gen_pred(info, attack=()))
            return 'type.ind:non-uniform:' + shape, ds
        # datatype-centred sequences
        y = r.random()
        att = ()
        if y < 0.35:
            att = (r.choice(['result', 'fewnames', 'manynames', 'tvar', 'arity', 'dupconstr', 'existing', 'noconstr']),)
        dt, info = self.gen_datatype(attack=att)
        ds = [dt]
        if att:
            return 'type.ind:attack', ds
        z = r.random()
        if z < 0.45:
            fatt = ()
            if r.random() < 0.4:
                fatt = (r.choice(['tvar', 'extra', 'noteq', 'head', 'norules', 'missing', 'nonconstr', 'overload']),)
            ds.append(self.gen_fun(info, attack=fatt))
            return 'type.ind+def.ind' + (':attack' if fatt else ''), ds
        if z < 0.8:
            patt = ()
            if r.random() < 0.4:
                patt = (r.choice(['partial', 'head', 'norules', 'duprule', 'existing']),)
            ds.append(self.gen_pred(info, attack=patt))
            return 'type.ind+def.pred' + (':attack' if patt else ''), ds
        if r.random() < 0.35:
            stray = r.random() < 0.7
            ds.append(self.gen_pred_on_overloaded(stray))
            return 'type.ind+def.pred-on-overloaded' + (':attack' if stray else ''), ds
        ds.append(self.gen_fun(None, attack=()))
        ds.append(self.gen_pred(None, attack=()))
        return 'type.ind+def.ind+def.pred', ds


def _stv(T):
    k = T[0]
    if k == 'tv':
        return ('stv', T[1])
    if k == 'tc':
        return ('tc', T[1], tuple(_stv(a) for a in T[2]))
    return T


def clean(desc):
    return {k: v for k, v in desc.items() if not k.startswith('_')}
