"""C18 oracle: independent semantics of the term language that veriT proofs use.

Works on vf.shadow tuples only (never calls a repo Term method).  Two parts:

* Enc      - shadow term -> Z3 expression (propositional connectives, equality, uninterpreted sorts /
             functions, quantifiers, ite, xor, distinct, Let, Hilbert choice as a constant with its axiom,
             linear int/real arithmetic with binary numerals);
* evaluate - a plain recursive evaluator of the same language over a given interpretation of the
             atoms (a Z3 model read as a table, or a python dict for truth tables).

judge() decides  H_res /\ premises |= C  : Z3 looks for a counter-model, which is then re-evaluated by
evaluate() when that is possible (quantifier-free, or quantifiers over finite universes).
Z3 'unknown' / constructs outside the fragment are reported as such, never as held or refuted.
"""
from fractions import Fraction
from vf import shadow as S

BOOL, INT, REAL, NAT = S.BOOL, S.INT, S.REAL, S.NAT


class Unencodable(Exception):
    pass


class NotEvaluable(Exception):
    pass


# ------------------------------------------------------------------ shared syntax helpers
def numeral_nat(s):
    """value of a binary nat numeral (zero | one | bit0 n | bit1 n) or None."""
    if s[0] == 'const':
        if s[1] == 'zero':
            return 0
        if s[1] == 'one':
            return 1
        return None
    if s[0] == 'comb' and s[1][0] == 'const' and s[1][1] in ('bit0', 'bit1'):
        v = numeral_nat(s[2])
        if v is None:
            return None
        return 2 * v + (1 if s[1][1] == 'bit1' else 0)
    return None


def strip_fun_type(T):
    args = []
    while T[0] == 'tc' and T[1] == 'fun' and len(T[2]) == 2:
        args.append(T[2][0])
        T = T[2][1]
    return args, T


def list_literal(s):
    """elements of cons x (cons y nil) or None"""
    out = []
    while True:
        h, a = S.strip_comb(s)
        if h[0] == 'const' and h[1] == 'nil' and not a:
            return out
        if h[0] == 'const' and h[1] == 'cons' and len(a) == 2:
            out.append(a[0])
            s = a[1]
            continue
        return None


def free_atoms(s, acc=None):
    return S.atoms(s, ('var', 'svar'), acc)


def has_binder(s):
    k = s[0]
    if k == 'abs':
        return True
    if k == 'comb':
        return has_binder(s[1]) or has_binder(s[2])
    return False


LOGIC2 = ('conj', 'disj', 'implies', 'equals', 'xor')
ARITH2 = ('plus', 'minus', 'times', 'real_divide', 'less', 'less_eq', 'greater', 'greater_eq')


# ------------------------------------------------------------------ Z3 encoding
class Enc:
    def __init__(self):
        import z3
        self.z3 = z3
        self.sorts = {}
        self.syms = {}        # atom shadow -> z3 const or FuncDecl
        self.choice = {}      # alpha(abs shadow) -> (z3 const, abs shadow)
        self.side = []
        self.n = 0
        self.quantified = False
        self.uses_choice = False
        self.int_div = False
        self.real_div = False
        self.div_guards = []
        self.qdepth = 0
        self.div_under_binder = False

    def sort(self, T):
        z3 = self.z3
        if T == BOOL:
            return z3.BoolSort()
        if T in (INT, NAT):
            return z3.IntSort()
        if T == REAL:
            return z3.RealSort()
        if T[0] in ('tv', 'stv'):
            if T not in self.sorts:
                self.sorts[T] = z3.DeclareSort('S_' + T[1])
            return self.sorts[T]
        raise Unencodable('type ' + S.ty_str(T))

    def sym(self, atom, nargs):
        """atom: ('var'|'svar', name, T)"""
        z3 = self.z3
        key = (atom, nargs)
        if key in self.syms:
            return self.syms[key]
        argTs, resT = strip_fun_type(atom[2])
        if nargs > len(argTs):
            raise Unencodable('over-applied ' + atom[1])
        resT = S.funs(*(argTs[nargs:] + [resT]))
        argTs = argTs[:nargs]
        if resT[0] == 'tc' and resT[1] == 'fun':
            raise Unencodable('function-valued ' + atom[1])
        nm = '%s_%s!%d' % ('v' if atom[0] == 'var' else 'sv', atom[1], len(self.syms))
        if nargs == 0:
            r = z3.Const(nm, self.sort(resT))
        else:
            r = z3.Function(nm, *([self.sort(a) for a in argTs] + [self.sort(resT)]))
        self.syms[key] = r
        return r

    def fresh(self, T, hint='b'):
        self.n += 1
        return self.z3.Const('%s!%d' % (hint, self.n), self.sort(T))

    def enc(self, s, env=()):
        z3 = self.z3
        h, args = S.strip_comb(s)
        k = h[0]
        if k == 'abs' and args:
            return self.enc(S.mk_comb(S.inst_bound(h[3], args[0]), *args[1:]), env)   # beta
        if k == 'bound':
            if args:
                raise Unencodable('applied bound variable')
            if h[1] >= len(env):
                raise Unencodable('loose bound variable')
            return env[h[1]]
        if k in ('var', 'svar'):
            f = self.sym(h, len(args))
            if not args:
                return f
            return f(*[self.enc(a, env) for a in args])
        if k == 'abs':
            raise Unencodable('lambda as a value')
        if k != 'const':
            raise Unencodable(str(k))
        name, n = h[1], len(args)
        if name == 'true' and n == 0:
            return z3.BoolVal(True)
        if name == 'false' and n == 0:
            return z3.BoolVal(False)
        if name == 'neg' and n == 1:
            return z3.Not(self.enc(args[0], env))
        if name in LOGIC2 and n == 2:
            a, b = self.enc(args[0], env), self.enc(args[1], env)
            if name == 'conj':
                return z3.And(a, b)
            if name == 'disj':
                return z3.Or(a, b)
            if name == 'implies':
                return z3.Implies(a, b)
            if name == 'xor':
                return z3.Xor(a, b)
            if a.sort() != b.sort():
                raise Unencodable('ill-sorted equality')
            return a == b
        if name == 'IF' and n == 3:
            c, a, b = [self.enc(x, env) for x in args]
            if a.sort() != b.sort():
                raise Unencodable('ill-sorted ite')
            return z3.If(c, a, b)
        if name in ('all', 'exists') and n == 1 and args[0][0] == 'abs':
            ab = args[0]
            v = self.fresh(ab[2], 'q_' + str(ab[1]))
            self.qdepth += 1
            try:
                body = self.enc(ab[3], (v,) + tuple(env))
            finally:
                self.qdepth -= 1
            self.quantified = True
            return z3.ForAll([v], body) if name == 'all' else z3.Exists([v], body)
        if name == 'Let' and n == 2 and args[1][0] == 'abs':
            t = self.enc(args[0], env)
            return self.enc(args[1][3], (t,) + tuple(env))
        if name == 'Some' and n == 1 and args[0][0] == 'abs':
            ab = args[0]
            if not S.is_closed(ab):
                raise Unencodable('choice term depending on a bound variable')
            key = S.alpha(ab)
            if key not in self.choice:
                c = self.fresh(ab[2], 'eps')
                self.choice[key] = (c, ab)
                self.uses_choice = True
                v = self.fresh(ab[2], 'ex')
                self.qdepth += 1
                try:
                    self.side.append(z3.Implies(z3.Exists([v], self.enc(ab[3], (v,))), self.enc(ab[3], (c,))))
                    for k2, (c2, ab2) in list(self.choice.items()):
                        if k2 != key and ab2[2] == ab[2]:
                            w = self.fresh(ab[2], 'ext')
                            self.side.append(z3.Implies(
                                z3.ForAll([w], self.enc(ab[3], (w,)) == self.enc(ab2[3], (w,))), c == c2))
                finally:
                    self.qdepth -= 1
                self.quantified = True
            return self.choice[key][0]
        if name in ('zero', 'one') and n == 0:
            T = h[2]
            v = 0 if name == 'zero' else 1
            if T in (INT, NAT):
                return z3.IntVal(v)
            if T == REAL:
                return z3.RealVal(v)
            raise Unencodable('numeral type')
        if name == 'of_nat' and n == 1:
            v = numeral_nat(args[0])
            _, resT = strip_fun_type(h[2])
            if v is None:
                raise Unencodable('of_nat of a non-literal')
            if resT == INT:
                return z3.IntVal(v)
            if resT == REAL:
                return z3.RealVal(v)
            raise Unencodable('of_nat type')
        if name == 'uminus' and n == 1:
            a = self.enc(args[0], env)
            if not z3.is_arith(a):
                raise Unencodable('uminus on non-arith')
            return -a
        if name in ARITH2 and n == 2:
            a, b = self.enc(args[0], env), self.enc(args[1], env)
            if not (z3.is_arith(a) and z3.is_arith(b)) or a.sort() != b.sort():
                raise Unencodable('ill-sorted arithmetic')
            if name == 'plus':
                return a + b
            if name == 'minus':
                return a - b
            if name == 'times':
                return a * b
            if name == 'real_divide':
                if z3.is_int(a):
                    self.int_div = True
                    g = b > 0
                else:
                    self.real_div = True
                    g = b != 0
                if self.qdepth:
                    self.div_under_binder = True
                else:
                    self.div_guards.append(g)
                return a / b
            if name == 'less':
                return a < b
            if name == 'less_eq':
                return a <= b
            if name == 'greater':
                return a > b
            return a >= b
        if name == 'distinct' and n == 1:
            els = list_literal(args[0])
            if els is None:
                raise Unencodable('distinct of a non-literal list')
            es = [self.enc(e, env) for e in els]
            if len(es) < 2:
                return z3.BoolVal(True)
            return z3.Distinct(*es)
        raise Unencodable('constant %s/%d' % (name, n))


# ------------------------------------------------------------------ evaluator
class Z3Table:
    """reads a Z3 model as a table of atom values; values are python bool/int/Fraction or ('u', sort, name)."""
    def __init__(self, enc, model):
        self.enc, self.m, self.z3 = enc, model, enc.z3
        self.back = {}

    def conv(self, v):
        z3 = self.z3
        if z3.is_true(v):
            return True
        if z3.is_false(v):
            return False
        if z3.is_int_value(v):
            return v.as_long()
        if z3.is_rational_value(v):
            return Fraction(v.numerator_as_long(), v.denominator_as_long())
        if v.sort().kind() == z3.Z3_UNINTERPRETED_SORT and z3.is_const(v):
            key = ('u', str(v.sort()), str(v))
            self.back[key] = v
            return key
        raise NotEvaluable('model value ' + str(v))

    def unconv(self, val, T):
        z3 = self.z3
        if isinstance(val, bool):
            return z3.BoolVal(val)
        if isinstance(val, tuple):
            return self.back[val]
        if T == REAL:
            return z3.RealVal(str(Fraction(val)))
        return z3.IntVal(int(val))

    def atom(self, a, argvals):
        f = self.enc.syms.get((a, len(argvals)))
        if f is None:
            raise NotEvaluable('atom not in the encoding')
        if not argvals:
            return self.conv(self.m.eval(f, model_completion=True))
        argTs, _ = strip_fun_type(a[2])
        zs = [self.unconv(v, T) for v, T in zip(argvals, argTs)]
        return self.conv(self.m.eval(f(*zs), model_completion=True))

    def universe(self, T):
        if T == BOOL:
            return [False, True]
        if T[0] in ('tv', 'stv') and T in self.enc.sorts:
            u = self.m.get_universe(self.enc.sorts[T])
            if u is None or len(u) == 0:
                raise NotEvaluable('empty universe')
            return [self.conv(x) for x in u]
        raise NotEvaluable('quantifier over an infinite or unknown domain')

    def choice(self, ab):
        e = self.enc.choice.get(S.alpha(ab))
        if e is None:
            raise NotEvaluable('choice term not in the encoding')
        return self.conv(self.m.eval(e[0], model_completion=True))


class DictTable:
    """propositional / first-order-free interpretation: dict atom-shadow -> value."""
    def __init__(self, d):
        self.d = d

    def atom(self, a, argvals):
        if argvals or a not in self.d:
            raise NotEvaluable('atom without a value')
        return self.d[a]

    def universe(self, T):
        if T == BOOL:
            return [False, True]
        raise NotEvaluable('quantifier')

    def choice(self, ab):
        raise NotEvaluable('choice')


def evaluate(s, tab, env=()):
    h, args = S.strip_comb(s)
    k = h[0]
    if k == 'abs' and args:
        return evaluate(S.mk_comb(S.inst_bound(h[3], args[0]), *args[1:]), tab, env)
    if k == 'bound':
        if args or h[1] >= len(env):
            raise NotEvaluable('bound')
        return env[h[1]]
    if k in ('var', 'svar'):
        return tab.atom(h, [evaluate(a, tab, env) for a in args])
    if k != 'const':
        raise NotEvaluable(k)
    name, n = h[1], len(args)
    if name == 'true' and n == 0:
        return True
    if name == 'false' and n == 0:
        return False
    if name == 'neg' and n == 1:
        return not _b(evaluate(args[0], tab, env))
    if name == 'conj' and n == 2:
        return _b(evaluate(args[0], tab, env)) and _b(evaluate(args[1], tab, env))
    if name == 'disj' and n == 2:
        return _b(evaluate(args[0], tab, env)) or _b(evaluate(args[1], tab, env))
    if name == 'implies' and n == 2:
        return (not _b(evaluate(args[0], tab, env))) or _b(evaluate(args[1], tab, env))
    if name == 'xor' and n == 2:
        return _b(evaluate(args[0], tab, env)) != _b(evaluate(args[1], tab, env))
    if name == 'equals' and n == 2:
        a, b = evaluate(args[0], tab, env), evaluate(args[1], tab, env)
        if isinstance(a, bool) != isinstance(b, bool) or isinstance(a, tuple) != isinstance(b, tuple):
            raise NotEvaluable('ill-sorted equality')
        return a == b
    if name == 'IF' and n == 3:
        return evaluate(args[1], tab, env) if _b(evaluate(args[0], tab, env)) else evaluate(args[2], tab, env)
    if name in ('all', 'exists') and n == 1 and args[0][0] == 'abs':
        ab = args[0]
        dom = tab.universe(ab[2])
        vals = (_b(evaluate(ab[3], tab, (d,) + tuple(env))) for d in dom)
        return all(vals) if name == 'all' else any(vals)
    if name == 'Let' and n == 2 and args[1][0] == 'abs':
        return evaluate(args[1][3], tab, (evaluate(args[0], tab, env),) + tuple(env))
    if name == 'Some' and n == 1 and args[0][0] == 'abs':
        return tab.choice(args[0])
    if name in ('zero', 'one') and n == 0:
        v = 0 if name == 'zero' else 1
        return Fraction(v) if h[2] == REAL else v
    if name == 'of_nat' and n == 1:
        v = numeral_nat(args[0])
        if v is None:
            raise NotEvaluable('of_nat')
        return Fraction(v) if strip_fun_type(h[2])[1] == REAL else v
    if name == 'uminus' and n == 1:
        return -_n(evaluate(args[0], tab, env))
    if name in ARITH2 and n == 2:
        a, b = _n(evaluate(args[0], tab, env)), _n(evaluate(args[1], tab, env))
        if isinstance(a, Fraction) != isinstance(b, Fraction):
            raise NotEvaluable('mixed int/real')
        if name == 'plus':
            return a + b
        if name == 'minus':
            return a - b
        if name == 'times':
            return a * b
        if name == 'real_divide':
            if b == 0:
                raise NotEvaluable('division by zero')
            if isinstance(a, Fraction):
                return a / b
            if b < 0:
                raise NotEvaluable('integer division by a negative number')
            return a // b
        if name == 'less':
            return a < b
        if name == 'less_eq':
            return a <= b
        if name == 'greater':
            return a > b
        return a >= b
    if name == 'distinct' and n == 1:
        els = list_literal(args[0])
        if els is None:
            raise NotEvaluable('distinct')
        vs = [evaluate(e, tab, env) for e in els]
        return all(vs[i] != vs[j] for i in range(len(vs)) for j in range(i + 1, len(vs)))
    raise NotEvaluable('constant %s/%d' % (name, n))


def _b(v):
    if not isinstance(v, bool):
        raise NotEvaluable('boolean expected')
    return v


def _n(v):
    if isinstance(v, bool) or isinstance(v, tuple):
        raise NotEvaluable('number expected')
    return v


# ------------------------------------------------------------------ the judgement
RLIMIT = 3000000


def judge(premises, result, ctxvars=(), rlimit=RLIMIT):
    """premises: list of (hyps tuple, prop) shadows; result: (hyps, prop); ctxvars: atoms bound by the
    step's context.  Decides whether   H_res, (closure of) premise sequents |= C.
    Returns (status, info) with status in
      held | refuted (counter-model re-evaluated by evaluate) | refuted_z3 (Z3 model, evaluation impossible)
      | unknown | unencodable | disagree | ill_typed"""
    rh, rc = result
    for t in list(rh) + [rc]:
        if not S.well_typed(t, BOOL):
            return 'ill_typed', S.tm_str(t)[:200]
    for hy, p in premises:
        for t in list(hy) + [p]:
            if not S.well_typed(t, BOOL):
                return 'unencodable', 'ill-typed premise'
    enc = Enc()
    z3 = enc.z3
    rhset = set(S.alpha(h) for h in rh)
    ctxvars = set(ctxvars)
    try:
        fs = [enc.enc(h) for h in rh]
        plan = []          # (kind, hyps, prop, closure atoms)
        for hy, p in premises:
            if S.alpha(p) in set(S.alpha(h) for h in hy) and all(S.alpha(h) in rhset for h in hy):
                continue   # A |- A with A kept: contributes nothing
            discharged = [h for h in hy if S.alpha(h) not in rhset]
            cl = []
            if discharged and ctxvars:
                fa = []
                for t in list(hy) + [p]:
                    free_atoms(t, fa)
                cl = [a for a in fa if a in ctxvars]
            body = z3.Implies(z3.And([enc.enc(h) for h in hy]), enc.enc(p)) if hy else enc.enc(p)
            if cl:
                body = z3.ForAll([enc.sym(a, 0) for a in cl], body)
                enc.quantified = True
            fs.append(body)
            plan.append((hy, p, cl))
        goal = enc.enc(rc)
        fs.append(z3.Not(goal))
        fs.extend(enc.side)
    except Unencodable as e:
        return 'unencodable', str(e)
    except RecursionError:
        return 'unencodable', 'recursion'
    s = z3.Solver()
    s.set('rlimit', rlimit)
    s.set('timeout', 20000)
    for f in fs:
        s.add(f)
    r = s.check()
    if r == z3.unsat:
        return 'held', None
    if r != z3.sat:
        return 'unknown', s.reason_unknown()
    if enc.int_div or enc.real_div:
        # x/0 and integer division by negatives mean different things in SMT-LIB and in HOL: only a
        # counter-model that avoids them decides anything
        if enc.div_under_binder:
            return 'unknown', 'division under a binder'
        for g in enc.div_guards:
            s.add(g)
        r = s.check()
        if r != z3.sat:
            return 'unknown', 'only counter-models through division by zero / negative divisor'
    m = s.model()
    info = {'model': str(m)[:600]}
    try:
        tab = Z3Table(enc, m)
        ok = _check_model(tab, rh, rc, plan)
    except NotEvaluable as e:
        if enc.int_div or enc.real_div:
            # the meaning of x/0 and of integer division by negatives differs between SMT-LIB and HOL:
            # a counter-model that needs it decides nothing
            return 'unknown', 'division semantics: ' + str(e)
        info['unevaluated'] = str(e)
        return 'refuted_z3', info
    except RecursionError:
        return 'refuted_z3', info
    if ok:
        return 'refuted', info
    return 'disagree', info


def _check_model(tab, rh, rc, plan):
    """True iff in the interpretation all result hyps and premise sequents hold and rc is false."""
    for h in rh:
        if not _b(evaluate(h, tab)):
            return False
    for hy, p, cl in plan:
        if cl:
            doms = [tab.universe(a[2]) for a in cl]
            import itertools
            for combo in itertools.product(*doms):
                t2 = _Override(tab, dict(zip(cl, combo)))
                if all(_b(evaluate(h, t2)) for h in hy) and not _b(evaluate(p, t2)):
                    return False
        else:
            if all(_b(evaluate(h, tab)) for h in hy) and not _b(evaluate(p, tab)):
                return False
    return not _b(evaluate(rc, tab))


class _Override:
    def __init__(self, tab, d):
        self.tab, self.d = tab, d

    def atom(self, a, argvals):
        if not argvals and a in self.d:
            return self.d[a]
        return self.tab.atom(a, argvals)

    def universe(self, T):
        return self.tab.universe(T)

    def choice(self, ab):
        return self.tab.choice(ab)


# ------------------------------------------------------------------ truth tables (end-to-end proofs)
def prop_atoms(terms):
    acc = []
    for t in terms:
        free_atoms(t, acc)
    return acc


def tt_sequent_valid(hyps, prop, max_atoms=14):
    """truth-table validity of hyps |- prop over boolean atoms; returns (True, None) | (False, assignment)
    | (None, reason)"""
    ats = prop_atoms(list(hyps) + [prop])
    if any(a[2] != BOOL for a in ats) or len(ats) > max_atoms:
        return None, 'not propositional / too many atoms'
    import itertools
    try:
        for vals in itertools.product([False, True], repeat=len(ats)):
            tab = DictTable(dict(zip(ats, vals)))
            if all(_b(evaluate(h, tab)) for h in hyps) and not _b(evaluate(prop, tab)):
                return False, {a[1]: v for a, v in zip(ats, vals)}
    except NotEvaluable as e:
        return None, str(e)
    return True, None


def tt_satisfiable(terms, max_atoms=14):
    ats = prop_atoms(terms)
    if any(a[2] != BOOL for a in ats) or len(ats) > max_atoms:
        return None, 'not propositional'
    import itertools
    try:
        for vals in itertools.product([False, True], repeat=len(ats)):
            tab = DictTable(dict(zip(ats, vals)))
            if all(_b(evaluate(t, tab)) for t in terms):
                return True, {a[1]: v for a, v in zip(ats, vals)}
    except NotEvaluable as e:
        return None, str(e)
    return False, None
