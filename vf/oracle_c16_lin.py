"""Independent oracles for C16 (linear arithmetic).

Nothing here calls the procedures under test.  A *system* is a list of rows
(coeffs, op, bound) over variables 0..nv-1 meaning  sum_i coeffs[i]*x_i  op  bound  with
op in '>=', '<=', '>', '<' and integer coeffs/bound.

* exact evaluation with fractions.Fraction (the only thing a violation ever rests on),
* bounded brute force over an integer box (numpy int64 grid, the hit is re-checked with Python ints),
* Z3 (LIA / LRA) used as a model finder only: a model counts only after exact re-substitution,
* a parser of linear HOL terms given as shadows (vf.shadow tuples), independent of the repo's
  normalisation code, to compare hypotheses of produced proofs with the given constraints,
* the delta-interval computation for assignments of the form x + y*delta (strict simplex).
"""
from fractions import Fraction
import itertools

OPS = ('>=', '<=', '>', '<')
NEG = {'>=': '<=', '<=': '>=', '>': '<', '<': '>'}


def holds(v, op, b):
    if op == '>=':
        return v >= b
    if op == '<=':
        return v <= b
    if op == '>':
        return v > b
    if op == '<':
        return v < b
    raise ValueError(op)


def row_value(coeffs, assign):
    return sum((Fraction(c) * Fraction(a) for c, a in zip(coeffs, assign)), Fraction(0))


def first_violated(rows, assign):
    """index of the first row not satisfied by assign (list of numbers, len nv), or None."""
    for i, (co, op, b) in enumerate(rows):
        if not holds(row_value(co, assign), op, b):
            return i
    return None


def from_omega(matrix):
    """factoid rows c[0..n-1], c[n] meaning 0 <= sum c_i x_i + c_n."""
    return [(list(r[:-1]), '>=', -r[-1]) for r in matrix]


def to_omega(rows):
    """integer reading of a system as factoid rows (strict ops tightened by 1)."""
    out = []
    for co, op, b in rows:
        if op == '>=':
            out.append(list(co) + [-b])
        elif op == '>':
            out.append(list(co) + [-b - 1])
        elif op == '<=':
            out.append([-c for c in co] + [b])
        else:
            out.append([-c for c in co] + [b - 1])
    return out


# ------------------------------------------------------------------ brute force over a box
_BOX = {0: 0, 1: 60, 2: 30, 3: 8, 4: 4, 5: 2}
_grids = {}


def box_radius(nv):
    return _BOX.get(nv, 1)


def _grid(nv):
    import numpy as np
    if nv not in _grids:
        B = box_radius(nv)
        axes = [np.arange(-B, B + 1, dtype=np.int64)] * nv
        # order points by increasing max-norm-ish (sum of abs) so that small witnesses come first
        g = np.stack(np.meshgrid(*axes, indexing='ij'), axis=-1).reshape(-1, nv) if nv else np.zeros((1, 0), dtype=np.int64)
        order = np.argsort(np.abs(g).sum(axis=1), kind='stable')
        _grids[nv] = g[order]
    return _grids[nv]


def brute_int(rows, nv):
    """An integer solution inside the box [-B,B]^nv (re-checked exactly), or None if the box has none."""
    import numpy as np
    g = _grid(nv)
    ok = np.ones(len(g), dtype=bool)
    for co, op, b in rows:
        v = g @ np.array(co, dtype=np.int64) if nv else np.zeros(len(g), dtype=np.int64)
        if op == '>=':
            ok &= v >= b
        elif op == '<=':
            ok &= v <= b
        elif op == '>':
            ok &= v > b
        else:
            ok &= v < b
        if not ok.any():
            return None
    idx = int(np.argmax(ok))
    w = [int(x) for x in g[idx]]
    assert first_violated(rows, w) is None, 'brute force grid disagrees with exact evaluation'
    return w


# ------------------------------------------------------------------ Z3 as a model finder
def z3_solve(rows, nv, domain, timeout_ms=120000):
    """('sat', exact witness) only if the model re-checks by substitution; ('unsat', None); ('unknown', why)."""
    import z3
    s = z3.Solver()
    s.set('timeout', timeout_ms)
    mk = z3.Int if domain == 'int' else z3.Real
    xs = [mk('x%d' % i) for i in range(nv)]
    for co, op, b in rows:
        e = z3.Sum([z3.IntVal(c) * x if domain == 'int' else z3.RealVal(c) * x for c, x in zip(co, xs)]) if nv else \
            (z3.IntVal(0) if domain == 'int' else z3.RealVal(0))
        bb = z3.IntVal(b) if domain == 'int' else z3.RealVal(b)
        s.add(e >= bb if op == '>=' else e <= bb if op == '<=' else e > bb if op == '>' else e < bb)
    r = s.check()
    if r == z3.unsat:
        return 'unsat', None
    if r != z3.sat:
        return 'unknown', 'z3 ' + str(r)
    m = s.model()
    w = []
    for x in xs:
        v = m.eval(x, model_completion=True)
        if domain == 'int':
            w.append(Fraction(v.as_long()))
        else:
            w.append(Fraction(v.numerator_as_long(), v.denominator_as_long()))
    if first_violated(rows, w) is not None:
        return 'unknown', 'z3 model failed exact re-check'
    return 'sat', w


def ground_truth(rows, nv, domain, planted=None):
    """-> (status, witness, sources).  status 'sat' only with an exactly verified witness;
    'unsat' = Z3 says unsat and (int) the box has no solution; else 'unknown'."""
    src = []
    if planted is not None and first_violated(rows, planted) is None and \
            (domain == 'real' or all(Fraction(p).denominator == 1 for p in planted)):
        src.append('planted')
        wit = [Fraction(p) for p in planted]
    else:
        wit = None
    bw = None
    if domain == 'int':
        bw = brute_int(rows, nv)
        if bw is not None:
            src.append('brute')
            if wit is None:
                wit = [Fraction(x) for x in bw]
    zs, zw = z3_solve(rows, nv, domain)
    src.append('z3:' + zs)
    if zs == 'sat' and wit is None:
        wit = zw
    if wit is not None:
        if zs == 'unsat':
            src.append('ORACLE-DISAGREE')     # verified witness wins; reported as a counter
        return 'sat', wit, src
    if zs == 'unsat':
        return 'unsat', None, src
    return 'unknown', None, src


# ------------------------------------------------------------------ delta assignments (strict simplex)
def delta_interval(rows, pairs):
    """pairs[i] = (x_i, y_i) meaning x_i + y_i*delta.  Returns (lo, lo_strict, hi, hi_strict) describing the set of
    delta > 0 for which every row holds, or None if that set is empty."""
    lo, lo_s = Fraction(0), True          # delta > 0
    hi, hi_s = None, False                # no upper limit
    for co, op, b in rows:
        X = sum((Fraction(c) * Fraction(p[0]) for c, p in zip(co, pairs)), Fraction(0)) - b
        Y = sum((Fraction(c) * Fraction(p[1]) for c, p in zip(co, pairs)), Fraction(0))
        # need X + Y*delta  op  0
        if op in ('<=', '<'):
            X, Y, op = -X, -Y, NEG[op]
        strict = (op == '>')
        if Y == 0:
            if not (X > 0 or (X == 0 and not strict)):
                return None
        elif Y > 0:     # delta >= -X/Y
            t = -X / Y
            if t > lo or (t == lo and strict and not lo_s):
                lo, lo_s = t, strict
        else:           # delta <= -X/Y
            t = -X / Y
            if hi is None or t < hi or (t == hi and strict and not hi_s):
                hi, hi_s = t, strict
    if hi is not None:
        if hi < lo or (hi == lo and (hi_s or lo_s)):
            return None
    return lo, lo_s, hi, hi_s


def pick_delta(iv):
    lo, lo_s, hi, hi_s = iv
    if hi is None:
        return lo + 1
    if lo == hi:
        return lo
    return (lo + hi) / 2


# ------------------------------------------------------------------ linear HOL terms given as shadows
class NotLinear(Exception):
    pass


def _strip(s):
    args = []
    while s[0] == 'comb':
        args.append(s[2])
        s = s[1]
    return s, args[::-1]


def _nat(s):
    """binary numeral of type nat (zero | one | bit0 n | bit1 n)."""
    h, a = _strip(s)
    if h[0] != 'const':
        raise NotLinear('numeral')
    if h[1] == 'zero' and not a:
        return 0
    if h[1] == 'one' and not a:
        return 1
    if h[1] == 'bit0' and len(a) == 1:
        return 2 * _nat(a[0])
    if h[1] == 'bit1' and len(a) == 1:
        return 2 * _nat(a[0]) + 1
    raise NotLinear('numeral')


def lin(s):
    """shadow of an int/real term -> (dict atom->Fraction, Fraction const).  Atoms are shadows of
    variables (or of any non-arithmetic subterm)."""
    h, a = _strip(s)
    if h[0] == 'const':
        n = h[1]
        if n == 'zero' and not a:
            return {}, Fraction(0)
        if n == 'one' and not a:
            return {}, Fraction(1)
        if n == 'of_nat' and len(a) == 1:
            return {}, Fraction(_nat(a[0]))
        if n == 'of_int' and len(a) == 1:
            return lin(a[0])
        if n == 'uminus' and len(a) == 1:
            d, c = lin(a[0])
            return {k: -v for k, v in d.items()}, -c
        if n in ('plus', 'minus') and len(a) == 2:
            d1, c1 = lin(a[0])
            d2, c2 = lin(a[1])
            sg = 1 if n == 'plus' else -1
            d = dict(d1)
            for k, v in d2.items():
                d[k] = d.get(k, Fraction(0)) + sg * v
            return d, c1 + sg * c2
        if n == 'times' and len(a) == 2:
            d1, c1 = lin(a[0])
            d2, c2 = lin(a[1])
            if not d1:
                return {k: c1 * v for k, v in d2.items()}, c1 * c2
            if not d2:
                return {k: c2 * v for k, v in d1.items()}, c1 * c2
            raise NotLinear('product of two non-constants')
        if n == 'real_divide' and len(a) == 2:
            d1, c1 = lin(a[0])
            d2, c2 = lin(a[1])
            if d2 or c2 == 0:
                raise NotLinear('division')
            return {k: v / c2 for k, v in d1.items()}, c1 / c2
    return {s: Fraction(1)}, Fraction(0)


def constraint(s):
    """shadow of a comparison -> canonical key (atoms, const, strict, ty) meaning sum + const >= 0 (or > 0).
    For integer comparisons a strict one is tightened (e > 0  ==  e - 1 >= 0) when all numbers are integral."""
    h, a = _strip(s)
    if h[0] != 'const' or len(a) != 2 or h[1] not in ('less_eq', 'less', 'greater_eq', 'greater'):
        raise NotLinear('not a comparison')
    ty = h[2][2][0][1] if h[2][0] == 'tc' and h[2][1] == 'fun' else '?'
    d1, c1 = lin(a[0])
    d2, c2 = lin(a[1])
    d = dict(d1)
    for k, v in d2.items():
        d[k] = d.get(k, Fraction(0)) - v
    c = c1 - c2
    if h[1] in ('less_eq', 'less'):
        d, c = {k: -v for k, v in d.items()}, -c
    strict = h[1] in ('less', 'greater')
    d = {k: v for k, v in d.items() if v != 0}
    if strict and ty == 'int' and c.denominator == 1 and all(v.denominator == 1 for v in d.values()):
        c, strict = c - 1, False
    return (tuple(sorted(d.items(), key=repr)), c, strict, ty)


def constraint_of_row(row, atoms, ty):
    """the same canonical key for a generated row over the atom shadows `atoms`."""
    co, op, b = row
    d = {atoms[i]: Fraction(c) for i, c in enumerate(co) if c != 0}
    c = Fraction(-b)
    if op in ('<=', '<'):
        d, c = {k: -v for k, v in d.items()}, -c
    strict = op in ('<', '>')
    if strict and ty == 'int':
        c, strict = c - 1, False
    return (tuple(sorted(d.items(), key=repr)), c, strict, ty)


def atom_names(key):
    return [a[0][1] for a in key[0] if a[0][0] in ('var', 'svar')]
