"""Independent numeric oracle for C19 (integration calculator steps preserve value).

Works on *shadows* of integral.expr trees (nested tuples built by reading structural fields
only), never on repo methods.  Evaluation is done with mpmath at two precisions; a case is
decided only when the two precisions agree.

Shadow forms
  ('v', name)                      variable
  ('c', num, den)                  rational constant
  ('neg', a)  ('op', o, a, b)      o in + - * / ^ = != < <= > >=
  ('f', name, (args...))           function application (builtin or user defined)
  ('D', var, body)                 derivative
  ('I', var, lo, hi, body)         definite integral
  ('E', var, lo, hi, body)         [body]_var=lo,hi
  ('L', var, lim, body, drt)       limit (drt None, '+', '-')
  ('inf', +1 | -1)
  ('II', var, body, (skolem args)) indefinite integral
  ('sk', name, (deps...))          Skolem constant / function
  ('S', var, lo, hi, body)         summation
  ('dif', body)  ('sym', name)     differential / pattern symbol (never evaluable)
"""
from fractions import Fraction
import mpmath
from mpmath import mp, mpf

VAR, CONST, OP, FUN, DERIV, INTEGRAL, EVAL_AT, SYMBOL, LIMIT, INF, INDEFINITEINTEGRAL, DIFFERENTIAL, \
    SKOLEMFUNC, SUMMATION = range(14)

RELS = ('=', '!=', '<', '<=', '>', '>=')


# ------------------------------------------------------------------ shadows
def to_shadow(e):
    """repo integral.expr.Expr -> shadow (reads fields only)."""
    ty = e.ty
    if ty == VAR:
        return ('v', e.name)
    if ty == CONST:
        f = Fraction(e.val)
        return ('c', f.numerator, f.denominator)
    if ty == OP:
        if len(e.args) == 1:
            return ('neg', to_shadow(e.args[0]))
        return ('op', e.op, to_shadow(e.args[0]), to_shadow(e.args[1]))
    if ty == FUN:
        return ('f', e.func_name, tuple(to_shadow(a) for a in e.args))
    if ty == DERIV:
        return ('D', str(e.var), to_shadow(e.body))
    if ty == INTEGRAL:
        return ('I', str(e.var), to_shadow(e.lower), to_shadow(e.upper), to_shadow(e.body))
    if ty == EVAL_AT:
        return ('E', str(e.var), to_shadow(e.lower), to_shadow(e.upper), to_shadow(e.body))
    if ty == LIMIT:
        return ('L', str(e.var), to_shadow(e.lim), to_shadow(e.body), e.drt)
    if ty == INF:
        return ('inf', 1 if e.t > 0 else -1)
    if ty == INDEFINITEINTEGRAL:
        return ('II', str(e.var), to_shadow(e.body), tuple(str(a) for a in e.skolem_args))
    if ty == SKOLEMFUNC:
        return ('sk', str(e.name), tuple(to_shadow(a) for a in e.dependent_vars))
    if ty == SUMMATION:
        return ('S', str(e.index_var), to_shadow(e.lower), to_shadow(e.upper), to_shadow(e.body))
    if ty == DIFFERENTIAL:
        return ('dif', to_shadow(e.body))
    if ty == SYMBOL:
        return ('sym', str(e.name))
    raise TypeError('unknown expr type %r' % (ty,))


def from_shadow(t):
    """shadow -> repo Expr, through the public constructors."""
    from integral import expr as X
    from decimal import Decimal
    k = t[0]
    if k == 'v':
        return X.Var(t[1])
    if k == 'c':
        return X.Const(t[1] if t[2] == 1 else Fraction(t[1], t[2]))
    if k == 'neg':
        return X.Op('-', from_shadow(t[1]))
    if k == 'op':
        return X.Op(t[1], from_shadow(t[2]), from_shadow(t[3]))
    if k == 'f':
        return X.Fun(t[1], *[from_shadow(a) for a in t[2]])
    if k == 'D':
        return X.Deriv(t[1], from_shadow(t[2]))
    if k == 'I':
        return X.Integral(t[1], from_shadow(t[2]), from_shadow(t[3]), from_shadow(t[4]))
    if k == 'E':
        return X.EvalAt(t[1], from_shadow(t[2]), from_shadow(t[3]), from_shadow(t[4]))
    if k == 'L':
        return X.Limit(t[1], from_shadow(t[2]), from_shadow(t[3]), t[4])
    if k == 'inf':
        return X.Inf(Decimal('inf') if t[1] > 0 else Decimal('-inf'))
    if k == 'II':
        return X.IndefiniteIntegral(t[1], from_shadow(t[2]), tuple(t[3]))
    if k == 'sk':
        return X.SkolemFunc(t[1], tuple(from_shadow(a) for a in t[2]))
    if k == 'S':
        return X.Summation(t[1], from_shadow(t[2]), from_shadow(t[3]), from_shadow(t[4]))
    if k == 'dif':
        return X.Differential(from_shadow(t[1]))
    if k == 'sym':
        return X.Symbol(t[1], [VAR, CONST, OP, FUN])
    raise TypeError(t)


def jsonable(t):
    if isinstance(t, tuple):
        return [jsonable(x) for x in t]
    return t


def from_json(j):
    if isinstance(j, list):
        return tuple(from_json(x) for x in j)
    return j


def show(t, prec=0):
    """independent printer for shadows (diagnostics only; fully parenthesised where in doubt)."""
    k = t[0]
    if k == 'v':
        return t[1]
    if k == 'c':
        s = str(t[1]) if t[2] == 1 else '%d/%d' % (t[1], t[2])
        return '(%s)' % s if (t[1] < 0 or t[2] != 1) else s
    if k == 'neg':
        return '(-%s)' % show(t[1])
    if k == 'op':
        return '(%s %s %s)' % (show(t[2]), t[1], show(t[3]))
    if k == 'f':
        return t[1] + ('(%s)' % ','.join(show(a) for a in t[2]) if t[2] else '')
    if k == 'D':
        return '(D %s. %s)' % (t[1], show(t[2]))
    if k == 'I':
        return '(INT %s:[%s,%s]. %s)' % (t[1], show(t[2]), show(t[3]), show(t[4]))
    if k == 'E':
        return '([%s]_%s=%s,%s)' % (show(t[4]), t[1], show(t[2]), show(t[3]))
    if k == 'L':
        return '(LIM {%s -> %s%s}. %s)' % (t[1], show(t[2]), t[4] or '', show(t[3]))
    if k == 'inf':
        return 'oo' if t[1] > 0 else '-oo'
    if k == 'II':
        return '(INT %s. %s)' % (t[1], show(t[2]))
    if k == 'sk':
        return 'SKOLEM(%s)' % t[1]
    if k == 'S':
        return 'SUM(%s,%s,%s,%s)' % (t[1], show(t[2]), show(t[3]), show(t[4]))
    return str(t)


def size(t):
    if not isinstance(t, tuple):
        return 0
    return 1 + sum(size(x) for x in t[1:] if isinstance(x, tuple))


def free_vars(t, acc=None, bound=()):
    """free variables; the variable of an indefinite integral counts as free (function argument)."""
    if acc is None:
        acc = []
    k = t[0]
    if k == 'v':
        if t[1] not in bound and t[1] not in acc:
            acc.append(t[1])
    elif k in ('c', 'inf', 'sym'):
        pass
    elif k == 'neg':
        free_vars(t[1], acc, bound)
    elif k == 'op':
        free_vars(t[2], acc, bound)
        free_vars(t[3], acc, bound)
    elif k == 'f':
        for a in t[2]:
            free_vars(a, acc, bound)
    elif k == 'D':
        # D x. f(x) is a function of x: x stays free
        free_vars(t[2], acc, bound)
        if t[1] not in bound and t[1] not in acc:
            acc.append(t[1])
    elif k in ('I', 'E', 'S'):
        free_vars(t[2], acc, bound)
        free_vars(t[3], acc, bound)
        free_vars(t[4], acc, bound + (t[1],))
    elif k == 'L':
        free_vars(t[2], acc, bound)
        free_vars(t[3], acc, bound + (t[1],))
    elif k == 'II':
        free_vars(t[2], acc, bound)
        if t[1] not in bound and t[1] not in acc:
            acc.append(t[1])
    elif k == 'sk':
        for a in t[2]:
            free_vars(a, acc, bound)
    elif k == 'dif':
        free_vars(t[1], acc, bound)
    return acc


def children(t):
    k = t[0]
    if k in ('v', 'c', 'inf', 'sym'):
        return ()
    if k in ('neg', 'dif'):
        return (t[1],)
    if k == 'op':
        return (t[2], t[3])
    if k in ('f', 'sk'):
        return tuple(t[2])
    if k in ('D', 'II'):
        return (t[2],)
    if k in ('I', 'E', 'S'):
        return (t[2], t[3], t[4])
    if k == 'L':
        return (t[2], t[3])
    raise TypeError(t)


def map_shadow(t, fn):
    """rebuild t bottom-up, applying fn to every node."""
    k = t[0]
    if k in ('v', 'c', 'inf', 'sym'):
        return fn(t)
    if k in ('neg', 'dif'):
        return fn((k, map_shadow(t[1], fn)))
    if k == 'op':
        return fn((k, t[1], map_shadow(t[2], fn), map_shadow(t[3], fn)))
    if k in ('f', 'sk'):
        return fn((k, t[1], tuple(map_shadow(a, fn) for a in t[2])))
    if k == 'D':
        return fn((k, t[1], map_shadow(t[2], fn)))
    if k == 'II':
        return fn((k, t[1], map_shadow(t[2], fn), t[3]))
    if k in ('I', 'E', 'S'):
        return fn((k, t[1], map_shadow(t[2], fn), map_shadow(t[3], fn), map_shadow(t[4], fn)))
    if k == 'L':
        return fn((k, t[1], map_shadow(t[2], fn), map_shadow(t[3], fn), t[4]))
    raise TypeError(t)


def subterms(t):
    stack = [t]
    while stack:
        x = stack.pop()
        yield x
        stack.extend(children(x))


def contains_kind(t, kinds):
    return any(s[0] in kinds for s in subterms(t))


def indef_vars(t):
    out = []
    for s in subterms(t):
        if s[0] == 'II' and s[1] not in out:
            out.append(s[1])
    return out


def int_hint_vars(ts):
    """variables that should be drawn as integers (always admissible as reals as well)."""
    out = set()

    def fv(t):
        return set(free_vars(t, None, ()))
    for t in ts:
        for s in subterms(t):
            if s[0] == 'f' and s[1] in ('factorial', 'binom'):
                for a in s[2]:
                    out |= fv(a)
            elif s[0] == 'op' and s[1] == '^':
                b = s[2]
                if (b[0] == 'c' and b[1] < 0) or b[0] == 'neg':
                    out |= fv(s[3])
            elif s[0] == 'S':
                out |= fv(s[2]) | fv(s[3])
                out.add(s[1])
    return out


# ------------------------------------------------------------------ evaluation
class NotEvaluable(Exception):
    def __init__(self, reason):
        Exception.__init__(self, reason)
        self.reason = reason


class DomainErr(NotEvaluable):
    """a real-domain failure (log of non-positive, even root of negative, division by exact zero).
    definite = raised outside any quadrature/limit/sum/diff and with a clear margin."""
    def __init__(self, reason, definite):
        NotEvaluable.__init__(self, reason)
        self.definite = definite


class Budget(NotEvaluable):
    pass


CLEAR = mpf('1e-9')
HEAVY = ('I', 'L', 'S', 'E')
EXPENSIVE = ('I', 'L', 'S', 'E', 'D', 'II')
MEMO = {}
MEMO_CAP = 30000
ENABLE_OSC = False     # quadosc for oscillatory improper integrals (expensive; switched on by the identity-condition workload)


class Ev:
    def __init__(self, defs=None, budget=200000):
        self.defs = defs or {}
        self.budget = budget
        self.n = 0
        self.qerr = mpf(0)
        self.nest = 0
        self.base_env = None
        self.diffvar = None      # derivative mode: Skolem terms independent of it evaluate to 0
        self.memo = {}

    # -- helpers
    def dom(self, reason, margin_clear):
        return DomainErr(reason, definite=(self.nest == 0 and margin_clear))

    def lookup(self, name, env):
        if name not in env:
            raise NotEvaluable('unbound variable ' + name)
        v = env[name]
        if isinstance(v, tuple) and v and v[0] == 'dep':
            env2 = dict(env)
            del env2[name]
            return self.ev(v[1], env2)
        return v

    def isint(self, x):
        return mp.isint(x) if mp.isfinite(x) else False

    def power(self, a, b, bshadow=None):
        if not (mp.isfinite(a) and mp.isfinite(b)):
            raise NotEvaluable('infinite operand of ^')
        if self.isint(b):
            n = int(b)
            if a == 0:
                if n > 0:
                    return mpf(0)
                if n == 0:
                    raise NotEvaluable('0^0')
                raise self.dom('0 to a negative power', True)
            if abs(n) > 100000:
                if a > 0:
                    return mp.exp(b * mp.log(a))
                raise NotEvaluable('huge exponent')
            return a ** n
        if a > 0:
            return mp.exp(b * mp.log(a))
        if a == 0:
            if b > 0:
                return mpf(0)
            raise self.dom('0 to a negative power', True)
        # negative base, non-integer exponent
        if bshadow is not None and bshadow[0] == 'c' and bshadow[2] % 2 == 1:
            raise NotEvaluable('odd root of a negative number (convention dependent)')
        try:
            q = Fraction(str(mp.nstr(b, 15))).limit_denominator(99)
            if abs(mpf(q.numerator) / q.denominator - b) < mpf('1e-18') and q.denominator % 2 == 1:
                raise NotEvaluable('odd root of a negative number (convention dependent)')
        except (ValueError, ZeroDivisionError):
            pass
        raise self.dom('negative base with non-integer exponent', a < -CLEAR)

    def call(self, name, args, env):
        if name in self.defs:
            params, body = self.defs[name]
            if len(params) != len(args):
                raise NotEvaluable('arity mismatch for ' + name)
            vals = [self.ev(a, env) for a in args]
            key = (name, tuple(vals), mp.prec, self.diffvar is None)
            if key in self.memo:
                return self.memo[key]
            r = self.ev(body, dict(zip(params, vals)))
            if len(self.memo) < 5000:
                self.memo[key] = r
            return r
        if name == 'pi' and not args:
            return +mp.pi
        if name == 'G' and not args:
            return +mp.catalan
        if len(args) == 2 and name == 'binom':
            n, k = self.ev(args[0], env), self.ev(args[1], env)
            if not (self.isint(n) and self.isint(k)) or n < 0 or k < 0 or k > n:
                raise NotEvaluable('binom of non-natural arguments')
            return mp.binomial(int(n), int(k))
        if len(args) != 1:
            raise NotEvaluable('undefined symbol %s/%d' % (name, len(args)))
        x = self.ev(args[0], env)
        if not mp.isfinite(x):
            raise NotEvaluable('infinite argument of ' + name)
        if name == 'sin':
            return mp.sin(x)
        if name == 'cos':
            return mp.cos(x)
        if name in ('tan', 'sec'):
            c = mp.cos(x)
            if c == 0:
                raise self.dom(name + ' at a pole', True)
            return mp.sin(x) / c if name == 'tan' else 1 / c
        if name in ('cot', 'csc'):
            s = mp.sin(x)
            if s == 0:
                raise self.dom(name + ' at a pole', True)
            return mp.cos(x) / s if name == 'cot' else 1 / s
        if name == 'exp':
            if x > 10 ** 6:
                raise NotEvaluable('exp overflow')
            return mp.exp(x)
        if name == 'log':
            if x <= 0:
                raise self.dom('log of a non-positive number', x < -CLEAR or x == 0)
            return mp.log(x)
        if name == 'sqrt':
            if x < 0:
                raise self.dom('sqrt of a negative number', x < -CLEAR)
            return mp.sqrt(x)
        if name == 'abs':
            return abs(x)
        if name == 'atan':
            return mp.atan(x)
        if name in ('asin', 'acos'):
            if abs(x) > 1:
                raise self.dom(name + ' outside [-1,1]', abs(x) > 1 + CLEAR)
            return mp.asin(x) if name == 'asin' else mp.acos(x)
        if name == 'acot':
            if x > 0:
                return mp.atan(1 / x)
            if x == 0:
                return mp.pi / 2
            raise NotEvaluable('acot of a negative number (convention dependent)')
        if name in ('asec', 'acsc'):
            if abs(x) < 1:
                raise self.dom(name + ' inside (-1,1)', abs(x) < 1 - CLEAR)
            return mp.acos(1 / x) if name == 'asec' else mp.asin(1 / x)
        if name == 'sinh':
            return mp.sinh(x)
        if name == 'cosh':
            return mp.cosh(x)
        if name == 'tanh':
            return mp.tanh(x)
        if name == 'factorial':
            if not self.isint(x) or x < 0 or x > 5000:
                raise NotEvaluable('factorial of a non-natural number')
            return mp.factorial(int(x))
        if name == 'Gamma':
            if x <= 0 and self.isint(x):
                raise NotEvaluable('Gamma at a pole')
            if x > 5000:
                raise NotEvaluable('Gamma overflow')
            return mp.gamma(x)
        raise NotEvaluable('undefined symbol %s/1' % name)

    def bound_value(self, t, env):
        if t[0] == 'inf':
            return mp.inf if t[1] > 0 else -mp.inf
        if t[0] == 'neg' and t[1][0] == 'inf':
            return -mp.inf if t[1][1] > 0 else mp.inf
        return self.ev(t, env)

    def osc_omega(self, body, var, env):
        """|omega| if the integrand contains sin/cos of arguments linear in var, all with the same frequency; else None"""
        om = None
        for sub in subterms(body):
            if sub[0] == 'f' and sub[1] in ('sin', 'cos') and len(sub[2]) == 1 and var in free_vars(sub[2][0]):
                arg = sub[2][0]
                if contains_kind(arg, ('I', 'L', 'S', 'E', 'D', 'II', 'sk')):
                    return None
                try:
                    vals = []
                    for x in (0, 1, 3):
                        env2 = dict(env)
                        env2[var] = mpf(x)
                        vals.append(self.ev(arg, env2))
                except NotEvaluable:
                    return None
                w = vals[1] - vals[0]
                if abs((vals[2] - vals[0]) - 3 * w) > mpf('1e-20') * max(1, abs(w)) or w == 0:
                    return None
                if om is not None and abs(abs(w) - om) > mpf('1e-20') * om:
                    return None
                om = abs(w)
        return om

    def charge(self, n):
        self.n += n
        if self.n > self.budget:
            raise Budget('evaluation budget exceeded')

    # -- limits: geometric sampling at raised precision, direct convergence or Aitken acceleration
    def limit_at(self, f, x0, direction):
        """limit of f(t) as t -> x0 (x0 may be +-inf); direction +1: from above, -1: from below."""
        self.charge(300)
        self.nest += 1
        dps = mp.dps
        tol = mpf(10) ** (-(dps - 6))
        try:
            with mp.workprec(2 * mp.prec + 20):
                seq, ait = [], []
                kmax = int(3.4 * dps) + 25
                for k in range(1, kmax):
                    if mp.isinf(x0):
                        t = (1 if x0 > 0 else -1) * mpf(2) ** k
                    else:
                        t = x0 + direction * mpf(2) ** (-k)
                    try:
                        v = f(t)
                    except DomainErr as e:
                        if k <= 3:
                            continue            # first samples may be outside the domain
                        raise NotEvaluable('limit: ' + e.reason)
                    if not mp.isfinite(v):
                        raise NotEvaluable('limit: non-finite sample')
                    seq.append(v)
                    sc = max(1, abs(v))
                    if len(seq) >= 4 and all(abs(seq[-i] - seq[-i - 1]) <= tol * sc for i in (1, 2, 3)):
                        self.qerr += abs(seq[-1] - seq[-2]) + tol * sc
                        return +seq[-1]
                    if len(seq) >= 3:
                        a, b, c = seq[-3], seq[-2], seq[-1]
                        den = (c - b) - (b - a)
                        if den != 0 and abs(c - b) < abs(b - a):
                            ait.append(c - (c - b) ** 2 / den)
                        else:
                            ait.append(None)
                        if len(ait) >= 3 and all(x is not None for x in ait[-3:]):
                            A = ait[-1]
                            if abs(A - ait[-2]) <= tol * sc and abs(ait[-2] - ait[-3]) <= tol * sc \
                                    and abs(A - c) <= 4 * abs(c - b) + tol * sc:
                                self.qerr += abs(A - ait[-2]) + tol * sc
                                return +A
                    if abs(v) > mpf(10) ** 40:
                        raise NotEvaluable('limit: diverging samples')
                raise NotEvaluable('limit: not converged')
        finally:
            self.nest -= 1

    def ev(self, t, env):
        self.n += 1
        if self.n > self.budget:
            raise Budget('evaluation budget exceeded')
        k = t[0]
        if k in HEAVY and (self.base_env is None or not contains_kind(t, ('II', 'sk'))):
            # values of expensive nodes are shared between calls (same shadow, same values of its free variables,
            # same precision): the output of one step is the input of the next
            try:
                key = (t, mp.prec, ENABLE_OSC, tuple((v, self.lookup(v, env)) for v in sorted(free_vars(t))))
            except NotEvaluable:
                key = None
            if key is not None:
                hit = MEMO.get(key)
                if hit is not None:
                    if hit[0] == 'err':
                        raise NotEvaluable(hit[1])
                    self.qerr += hit[2]
                    return hit[1]
                q0 = self.qerr
                try:
                    v = self.ev_node(t, env)
                except (Budget, DomainErr):
                    raise
                except NotEvaluable as e:
                    if len(MEMO) < MEMO_CAP:
                        MEMO[key] = ('err', e.reason)
                    raise
                if len(MEMO) < MEMO_CAP:
                    MEMO[key] = ('ok', v, self.qerr - q0)
                return v
        return self.ev_node(t, env)

    def ev_node(self, t, env):
        k = t[0]
        if k == 'c':
            return mpf(t[1]) / t[2] if t[2] != 1 else mpf(t[1])
        if k == 'v':
            return self.lookup(t[1], env)
        if k == 'neg':
            return -self.ev(t[1], env)
        if k == 'op':
            o = t[1]
            if o in RELS:
                raise NotEvaluable('relation used as a value')
            a = self.ev(t[2], env)
            b = self.ev(t[3], env)
            if o == '^':
                return self.power(a, b, t[3])
            if not (mp.isfinite(a) and mp.isfinite(b)):
                raise NotEvaluable('infinite operand')
            if o == '+':
                return a + b
            if o == '-':
                return a - b
            if o == '*':
                return a * b
            if o == '/':
                if b == 0:
                    raise self.dom('division by zero', True)
                return a / b
            raise NotEvaluable('operator ' + o)
        if k == 'f':
            return self.call(t[1], t[2], env)
        if k == 'inf':
            raise NotEvaluable('infinity used as a value')
        if k == 'I':
            lo, hi = self.bound_value(t[2], env), self.bound_value(t[3], env)
            if mp.isnan(lo) or mp.isnan(hi):
                raise NotEvaluable('nan bound')
            if lo == hi:
                return mpf(0)
            var, body = t[1], t[4]
            env2 = dict(env)

            def f(x):
                env2[var] = x
                return self.ev(body, env2)
            omega = None
            if ENABLE_OSC and (mp.isinf(lo) or mp.isinf(hi)):
                omega = self.osc_omega(body, var, env)
            self.nest += 1
            try:
                if omega is not None:
                    # oscillatory integrand (one sin/cos frequency) over an infinite range: integrate between
                    # zeros and extrapolate the alternating series (mpmath.quadosc); no error estimate, the
                    # 30/60 digit cross-check decides whether the value is usable
                    self.charge(3000)
                    sgn = 1
                    if lo > hi:
                        lo, hi, sgn = hi, lo, -1
                    if mp.isinf(lo) and mp.isinf(hi):
                        v = mp.quadosc(lambda x: f(x) + f(-x), [0, mp.inf], omega=omega)
                    elif mp.isinf(hi):
                        v = mp.quadosc(f, [lo, mp.inf], omega=omega)
                    else:
                        v = mp.quadosc(lambda x: f(-x), [-hi, mp.inf], omega=omega)
                    v, err = sgn * v, mpf(0)
                else:
                    v, err = mp.quad(f, [lo, hi], error=True)
            except (ZeroDivisionError, OverflowError, ValueError, mp.NoConvergence) as e:
                raise NotEvaluable('quad: ' + type(e).__name__)
            finally:
                self.nest -= 1
            if not mp.isfinite(v):
                raise NotEvaluable('integral not finite')
            self.qerr += abs(err)
            return v
        if k == 'E':
            var, body = t[1], t[4]
            res = []
            for bnd, side in ((t[3], -1), (t[2], +1)):
                bv = self.bound_value(bnd, env)
                env2 = dict(env)
                if mp.isinf(bv):
                    def f(x):
                        env2[var] = x
                        return self.ev(body, env2)
                    res.append(self.limit_at(f, bv, 0))
                else:
                    env2[var] = bv
                    try:
                        res.append(self.ev(body, env2))
                    except DomainErr:
                        # value at the end point as a one-sided limit from inside
                        def f(x):
                            env2[var] = x
                            return self.ev(body, env2)
                        res.append(self.limit_at(f, bv, side))
            return res[0] - res[1]
        if k == 'L':
            var, body, drt = t[1], t[3], t[4]
            x0 = self.bound_value(t[2], env)
            if mp.isinf(x0) and body[0] == 'I' and body[1] != var and var not in free_vars(body[4], None, (body[1],)):
                # LIM t->oo INT x:[a,t] f  is by definition the improper integral INT x:[a,oo] f
                lo_, hi_ = body[2], body[3]
                inf_sh = ('inf', 1 if x0 > 0 else -1)
                if hi_ == ('v', var) and var not in free_vars(lo_):
                    return self.ev(('I', body[1], lo_, inf_sh, body[4]), env)
                if lo_ == ('v', var) and var not in free_vars(hi_):
                    return self.ev(('I', body[1], inf_sh, hi_, body[4]), env)
            env2 = dict(env)

            def f(x):
                env2[var] = x
                return self.ev(body, env2)
            if mp.isinf(x0):
                return self.limit_at(f, x0, 0)
            if drt == '+':
                return self.limit_at(f, x0, 1)
            if drt == '-':
                return self.limit_at(f, x0, -1)
            try:
                up = self.limit_at(f, x0, 1)
            except DomainErr:
                up = None
            try:
                dn = self.limit_at(f, x0, -1)
            except DomainErr:
                dn = None
            if up is None and dn is None:
                raise NotEvaluable('limit: undefined on both sides')
            if up is None or dn is None:
                return up if dn is None else dn      # function defined on one side only
            if abs(up - dn) > mpf('1e-9') * max(1, abs(up)):
                raise NotEvaluable('two-sided limit: sides disagree')
            return (up + dn) / 2
        if k == 'D':
            var, body = t[1], t[2]
            x0 = self.lookup(var, env)
            env2 = dict(env)

            def f(x):
                env2[var] = x
                return self.ev(body, env2)
            self.charge(100)
            self.nest += 1
            try:
                return mp.diff(f, x0)
            except (ZeroDivisionError, OverflowError, ValueError) as e:
                raise NotEvaluable('diff: ' + type(e).__name__)
            finally:
                self.nest -= 1
        if k == 'S':
            lo, hi = self.bound_value(t[2], env), self.bound_value(t[3], env)
            var, body = t[1], t[4]
            if not self.isint(lo) or not (self.isint(hi) or hi == mp.inf):
                raise NotEvaluable('summation bounds not integers')
            env2 = dict(env)

            def f(x):
                env2[var] = mpf(x)
                return self.ev(body, env2)
            if hi != mp.inf:
                if hi - lo > 4000:
                    raise NotEvaluable('too many terms')
                s = mpf(0)
                for i in range(int(lo), int(hi) + 1):
                    s += f(i)
                return s
            self.charge(2000)
            self.nest += 1
            try:
                s = mp.nsum(f, [int(lo), mp.inf])
                p1 = sum(f(i) for i in range(int(lo), int(lo) + 40))
                p2 = p1 + sum(f(i) for i in range(int(lo) + 40, int(lo) + 160))
            except (mp.NoConvergence, ZeroDivisionError, OverflowError, ValueError) as e:
                raise NotEvaluable('nsum: ' + type(e).__name__)
            finally:
                self.nest -= 1
            if not mp.isfinite(s):
                raise NotEvaluable('sum not finite')
            if abs(s - p2) > 10 * abs(p2 - p1) + mpf('1e-6') * max(1, abs(s)):
                raise NotEvaluable('nsum: extrapolation inconsistent with partial sums')
            return s
        if k == 'II':
            var, body = t[1], t[2]
            if self.base_env is None:
                raise NotEvaluable('indefinite integral outside derivative mode')
            hi = self.lookup(var, env)
            lo = self.lookup(var, self.base_env)
            if lo == hi:
                return mpf(0)
            env2 = dict(env)

            def f(x):
                env2[var] = x
                return self.ev(body, env2)
            self.nest += 1
            try:
                v, err = mp.quad(f, [lo, hi], error=True)
            except (ZeroDivisionError, OverflowError, ValueError) as e:
                raise NotEvaluable('quad: ' + type(e).__name__)
            finally:
                self.nest -= 1
            self.qerr += abs(err)
            return v
        if k == 'sk':
            if self.diffvar is None:
                raise NotEvaluable('Skolem term outside derivative mode')
            for d in t[2]:
                if self.diffvar in free_vars(d):
                    raise NotEvaluable('Skolem function of the differentiation variable')
            return mpf(0)
        raise NotEvaluable('cannot evaluate ' + k)

    def holds(self, cond, env):
        """truth value of a relation; NotEvaluable if it cannot be decided."""
        if cond[0] != 'op' or cond[1] not in RELS:
            raise NotEvaluable('not a relation')
        o = cond[1]
        a = self.bound_value(cond[2], env)
        b = self.bound_value(cond[3], env)
        if o == '=':
            return abs(a - b) <= mpf('1e-25') * max(1, abs(a)) if mp.isfinite(a) and mp.isfinite(b) else a == b
        if o == '!=':
            return abs(a - b) > mpf('1e-6')
        if o == '<':
            return a < b
        if o == '<=':
            return a <= b
        if o == '>':
            return a > b
        if o == '>=':
            return a >= b


# ------------------------------------------------------------------ drawing admissible parameter values
def _var_bounds(v, conds, env, ev):
    """interval for variable v from conditions 'v REL t' / 't REL v' whose other side is evaluable."""
    lo, hi, eq, ne = None, None, None, []
    for c in conds:
        if c[0] != 'op' or c[1] not in RELS:
            continue
        o, a, b = c[1], c[2], c[3]
        if a == ('v', v) and v not in free_vars(b):
            other, flip = b, False
        elif b == ('v', v) and v not in free_vars(a):
            other, flip = a, True
        else:
            continue
        try:
            val = ev.bound_value(other, env)
        except NotEvaluable:
            continue
        if flip:
            o = {'<': '>', '<=': '>=', '>': '<', '>=': '<=', '=': '=', '!=': '!='}[o]
        if o == '=':
            eq = val
        elif o == '!=':
            ne.append(val)
        elif o in ('<', '<='):
            hi = val if hi is None else min(hi, val)
        else:
            lo = val if lo is None else max(lo, val)
    return lo, hi, eq, ne


def draw_env(fvs, conds, rng, defs, int_vars=(), tries=40, special=False):
    """random values for the variables fvs satisfying all evaluable conditions, or None."""
    ev = Ev(defs, budget=20000)
    fvs = list(fvs)
    for attempt in range(tries):
        env = {}
        pending = list(fvs)
        rng.shuffle(pending)
        # variables whose bounds are evaluable first
        guard = 0
        while pending and guard < 50:
            guard += 1
            pick = None
            for v in pending:
                ok = True
                for c in conds:
                    if c[0] == 'op' and (c[2] == ('v', v) or c[3] == ('v', v)):
                        other = c[3] if c[2] == ('v', v) else c[2]
                        if any(w in pending and w != v for w in free_vars(other)):
                            ok = False
                if ok:
                    pick = v
                    break
            if pick is None:
                pick = pending[0]
            pending.remove(pick)
            lo, hi, eq, ne = _var_bounds(pick, conds, env, ev)
            isint = pick in int_vars
            if eq is not None:
                env[pick] = eq
                continue
            if lo is not None and mp.isinf(lo):
                lo = None
            if hi is not None and mp.isinf(hi):
                hi = None
            if lo is not None and hi is not None:
                if lo >= hi:
                    env = None
                    break
                if isint:
                    a, b = int(mp.ceil(lo)), int(mp.floor(hi))
                    if a > b:
                        env = None
                        break
                    val = mpf(rng.randint(a, min(b, a + 8)))
                else:
                    w = hi - lo
                    val = lo + w * mpf(rng.uniform(0.04, 0.96))
            elif lo is not None:
                val = mpf(int(mp.ceil(lo)) + rng.randint(0, 5)) if isint else lo + mpf(rng.choice([0.3, 1, 3])) * mpf(rng.uniform(0.05, 1))
            elif hi is not None:
                val = mpf(int(mp.floor(hi)) - rng.randint(0, 5)) if isint else hi - mpf(rng.choice([0.3, 1, 3])) * mpf(rng.uniform(0.05, 1))
            else:
                if isint:
                    val = mpf(rng.randint(0, 6)) if rng.random() < 0.8 else mpf(rng.randint(-4, -1))
                elif special and rng.random() < 0.5:
                    val = mpf(rng.choice([0, 1, -1, 2, -2]))
                else:
                    val = mpf(rng.uniform(-3, 3)) if rng.random() < 0.7 else mpf(rng.uniform(-1, 1))
            env[pick] = val
        if env is None:
            continue
        ok = True
        for c in conds:
            if not set(free_vars(c)) <= set(env):
                continue            # condition about something that is not a parameter here
            try:
                if not ev.holds(c, env):
                    ok = False
                    break
            except NotEvaluable:
                continue
        if ok:
            return env
    return None


# ------------------------------------------------------------------ judging
class Tally:
    """shared logical budget (number of evaluator node visits) of one judge() call"""
    def __init__(self, total):
        self.left = total


def _value(t, env, defs, tally, dps, diffvar, deps, per_eval):
    """value of t at env (plain) or d/d(diffvar) of t at env (derivative mode); returns (value, quad-error)."""
    with mp.workdps(dps):
        cap = min(per_eval, tally.left)
        if cap <= 0:
            raise Budget('evaluation budget exceeded')
        ev = Ev(defs, cap)
        env = {k: (+v if not isinstance(v, tuple) else v) for k, v in env.items()}
        for k, shd in deps.items():
            env[k] = ('dep', shd)
        try:
            if diffvar is None:
                v = ev.ev(t, env)
                return +v, +ev.qerr
            ev.diffvar = diffvar
            ev.base_env = dict(env)
            x0 = env[diffvar]
            env2 = dict(env)

            def g(x):
                env2[diffvar] = x
                return ev.ev(t, env2)
            ev.nest += 1        # numerical differentiation: domain errors near the point are not definite
            try:
                v = mp.diff(g, x0)
            except (ZeroDivisionError, OverflowError, ValueError) as e:
                raise NotEvaluable('diff: ' + type(e).__name__)
            return +v, +ev.qerr
        finally:
            tally.left -= ev.n


def _two_prec(t, env, defs, tally, diffvar, deps, per_eval):
    v30, q30 = _value(t, env, defs, tally, 30, diffvar, deps, per_eval)
    if not mp.isfinite(v30):
        raise NotEvaluable('non-finite value')
    if q30 > mpf('1e-6') * max(1, abs(v30)):
        raise NotEvaluable('value unstable: quadrature error estimate too large')
    v60, q60 = _value(t, env, defs, tally, 60, diffvar, deps, per_eval * 2)
    if not mp.isfinite(v60):
        raise NotEvaluable('non-finite value')
    return v60, abs(v30 - v60) + q60


def _side_value(t, env, defs, tally, diffvar, deps, per_eval):
    """value (or residual lhs - rhs for an equation) with error estimate and scale."""
    if t[0] == 'op' and t[1] == '=':
        a, ea = _two_prec(t[2], env, defs, tally, diffvar, deps, per_eval)
        b, eb = _two_prec(t[3], env, defs, tally, diffvar, deps, per_eval)
        return a - b, ea + eb, max(1, abs(a), abs(b))
    v, e = _two_prec(t, env, defs, tally, diffvar, deps, per_eval)
    return v, e, max(1, abs(v))


STABLE = mpf('1e-8')
# reasons for which another parameter draw cannot help
STRUCTURAL = ('budget', 'unstable', 'limit', 'nsum', 'undefined symbol', 'unbound variable', 'Skolem', 'indefinite integral',
              'cannot evaluate', 'relation used', 'quad:', 'diff:', 'summation bounds', 'too many terms', 'not finite',
              'non-finite', 'infinity used', 'infinite')


def _structural(reason):
    return any(p in reason for p in STRUCTURAL)


def judge(before, after, conds=(), defs=None, deps=None, rng=None, budget=400000, max_draws=4,
          premises=(), per_eval=None, min_draws=None):
    """Compare two shadows under conditions.

    Returns dict(verdict='held'|'violated'|'inconclusive', what=..., reason=..., draws=[...]).
    budget: total number of evaluator node visits for this call (logical budget); per_eval: cap of one
    30-digit evaluation (the 60-digit one gets twice that).
    premises: equations (shadows) the step relies on (lemmas, induction hypotheses); a draw at which a
    premise is not numerically valid cannot convict.
    """
    import random
    rng = rng or random.Random(0)
    defs = defs or {}
    tally = Tally(budget)
    per_eval = per_eval or max(1000, budget // 6)
    is_eq_b = before[0] == 'op' and before[1] == '='
    is_eq_a = after[0] == 'op' and after[1] == '='
    if is_eq_b != is_eq_a:
        return {'verdict': 'inconclusive', 'reason': 'equation/term mismatch', 'draws': []}
    for t in (before, after):
        if contains_kind(t, ('sym', 'dif')):
            return {'verdict': 'inconclusive', 'reason': 'pattern symbol or differential', 'draws': []}
        if t[0] == 'op' and t[1] in RELS and t[1] != '=':
            return {'verdict': 'inconclusive', 'reason': 'inequality', 'draws': []}
    fb, fa = free_vars(before), free_vars(after)
    # a substitution variable is tied to its defining expression only when the step changes variables,
    # i.e. when it occurs on exactly one side
    deps = {k: d for k, d in (deps or {}).items() if (k in fb) != (k in fa)}
    # derivative mode?
    diffvar = None
    need_deriv = contains_kind(before, ('II', 'sk')) or contains_kind(after, ('II', 'sk'))
    if need_deriv:
        cands = [v for v in indef_vars(before) + indef_vars(after) if v not in deps]
        cands = list(dict.fromkeys(cands))
        if not cands:
            # only Skolem terms (or dependent integration variables): differentiate w.r.t. a variable the
            # Skolem terms do not depend on, preferring one that occurs on both sides
            fv = [v for v in fb + fa if v not in deps]
            for d in deps.values():
                fv += free_vars(d)
            skdeps = set()
            for t in (before, after):
                for s in subterms(t):
                    if s[0] == 'sk':
                        for d in s[2]:
                            skdeps |= set(free_vars(d))
            fv = [v for v in dict.fromkeys(fv) if v not in skdeps]
            both = [v for v in fv if v in fb and v in fa]
            cands = (both or fv)[:1]
        if len(cands) != 1:
            return {'verdict': 'inconclusive', 'reason': 'no unique differentiation variable', 'draws': []}
        diffvar = cands[0]
    fvs = []
    for t in (before, after) + tuple(deps.values()):
        for v in free_vars(t):
            if v not in fvs and v not in deps:
                fvs.append(v)
    ints = int_hint_vars([before, after] + list(conds)) | {v for v in fvs if v in ('n', 'm', 'k')}
    ints.discard(diffvar)
    relevant = [c for c in conds if set(free_vars(c)) & set(fvs)]
    closed = not fvs
    draws, nH, nV, nI, nD = [], 0, 0, 0, 0
    what = None
    cheap = not (contains_kind(before, EXPENSIVE) or contains_kind(after, EXPENSIVE))
    if min_draws is None:
        # identities that hold on a part of the parameter domain only (atan(tan(x)) = x) need more than two draws;
        # for expressions without integrals / limits / sums / derivatives extra draws cost nothing
        min_draws = 5 if cheap else 2
    if cheap:
        max_draws = max(max_draws, min_draws + 2)
    ndraw = 1 if closed else max(max_draws, min_draws)
    redraws = 0
    i = 0
    stop = False
    while i < ndraw and not stop:
        i += 1
        with mp.workdps(40):
            env = draw_env(fvs, relevant, rng, defs, ints)
        if env is None:
            draws.append({'status': 'I', 'reason': 'no admissible parameter values found'})
            nI += 1
            break
        rec = {'env': {k: mp.nstr(v, 12) for k, v in env.items()}}
        # input side; a domain failure of the input means the draw is outside its real domain: redraw
        try:
            vb, eb, sb = _side_value(before, env, defs, tally, diffvar, deps, per_eval)
        except NotEvaluable as e:
            if not _structural(e.reason) and not closed and redraws < 6 * ndraw:
                redraws += 1
                i -= 1
                continue
            rec.update(status='I', reason='input not evaluable: ' + e.reason)
            draws.append(rec)
            nI += 1
            stop = _structural(e.reason)
            continue
        if eb > STABLE * sb:
            rec.update(status='I', reason='input value unstable across precisions')
            draws.append(rec)
            nI += 1
            stop = True
            continue
        if is_eq_b and abs(vb) > max(10 * eb, mpf('1e-12') * sb):
            rec.update(status='I', reason='input equation not numerically valid here', before=mp.nstr(vb, 12))
            draws.append(rec)
            nI += 1
            continue
        # premises
        bad_prem = False
        for p in premises:
            try:
                if [v for v in free_vars(p) if v not in env and v not in deps]:
                    bad_prem = True
                    break
                vp, ep, sp = _side_value(p, env, defs, tally, diffvar if contains_kind(p, ('II', 'sk')) else None, deps, per_eval)
                if abs(vp) > max(10 * ep, mpf('1e-10') * sp):
                    bad_prem = True
                    break
            except NotEvaluable:
                bad_prem = True
                break
        try:
            va, ea, sa = _side_value(after, env, defs, tally, diffvar, deps, per_eval)
        except DomainErr as e:
            # the output has no real value here: the draw is outside the domain where both sides are real
            # (log / roots of negatives are convention dependent) - never a verdict
            rec.update(status='I', reason='output outside the real domain: ' + e.reason, definite=bool(e.definite))
            nI += 1
            nD += 1
            draws.append(rec)
            continue
        except NotEvaluable as e:
            rec.update(status='I', reason='output not evaluable: ' + e.reason)
            draws.append(rec)
            nI += 1
            stop = _structural(e.reason)
            continue
        if ea > STABLE * sa:
            rec.update(status='I', reason='output value unstable across precisions')
            draws.append(rec)
            nI += 1
            stop = True
            continue
        sc = max(sb, sa)
        est = eb + ea + mpf('1e-25') * sc
        d = abs(va) if is_eq_b else abs(vb - va)
        rec.update(before=mp.nstr(vb, 15), after=mp.nstr(va, 15), err=mp.nstr(est, 3))
        if d <= max(10 * est, mpf('1e-20') * sc):
            rec['status'] = 'H'
            nH += 1
        elif d > 10 ** 4 * est and d > mpf('1e-7') * sc:
            if bad_prem:
                rec.update(status='I', reason='value differs but a premise (lemma/hypothesis) is not valid at this draw')
                nI += 1
            else:
                rec['status'] = 'V'
                nV += 1
                if is_eq_b:
                    w = 'equation-broken'
                elif diffvar is not None:
                    w = 'derivative-differs'
                elif abs(vb + va) <= max(10 * est, mpf('1e-15') * sc) and abs(vb) > mpf('1e-6'):
                    w = 'sign-flipped'
                else:
                    w = 'value-changed'
                rec['what'] = w
                what = what if (what and what != 'domain-lost') else w
        else:
            rec.update(status='I', reason='difference within error band')
            nI += 1
        draws.append(rec)
        if nV >= 2 or (nH >= max(2, min_draws) and nV == 0):
            break
    need = 1 if closed else 2
    if nV >= need:
        verdict = 'violated'
    elif nV == 0 and nH >= need and nD == 0:
        verdict = 'held'
    else:
        verdict = 'inconclusive'
    res = {'verdict': verdict, 'draws': draws, 'closed': closed, 'mode': 'deriv:' + diffvar if diffvar else 'value',
           'nodes': budget - tally.left, 'domain_lost_draws': nD}
    if verdict == 'violated':
        res['what'] = what
    if verdict == 'inconclusive':
        rs = [dr.get('reason') for dr in draws if dr.get('status') == 'I']
        rs.sort(key=lambda r: 0 if 'outside the real domain' in (r or '') else 1)
        res['reason'] = rs[0] if rs else ('mixed draws' if nV else 'too few decided draws')
    return res
