"""Generated workloads for C19 (helper of vf/props/c19.py): integrands + rule parameters, auxiliary checks.

Every random choice goes through vctx.rng.  A generated case is a context spec (book, conditions, definitions,
lemmas, hypotheses, substitutions), a start expression and a chain of rule descriptors; the chain is executed
with rule.eval at top level so that the monitors installed by c19.Monitor see and judge every call.
"""
import io, json, contextlib
from vf import oracle_c19_numeric as O
from vf.core import h64


def quiet():
    return contextlib.redirect_stdout(io.StringIO())


def P(s):
    from integral import parser
    with quiet():
        return parser.parse_expr(s)


# ------------------------------------------------------------------------------------------ contexts
_BOOK_CTX = {}


def make_ctx(spec):
    from integral.context import Context
    book = spec.get('book', 'base')
    if book not in _BOOK_CTX:
        c = Context()
        with quiet():
            c.load_book(book)
        _BOOK_CTX[book] = c
    ctx = Context(_BOOK_CTX[book])
    for d in spec.get('defs', []):
        e = P(d)
        ctx.add_definition(e)
        ctx.add_lemma(e)
    for l in spec.get('lemmas', []):
        ctx.add_lemma(P(l))
    for h in spec.get('hyps', []):
        ctx.add_induct_hyp(P(h))
    for c in spec.get('conds', []):
        ctx.add_condition(P(c))
    for k, v in spec.get('substs', {}).items():
        ctx.add_subst(k, P(v))
    return ctx


# ------------------------------------------------------------------------------------------ integrand families
def ri(rng, a, b, nz=False):
    while True:
        v = rng.randint(a, b)
        if v != 0 or not nz:
            return v


def cstr(c):
    return str(c) if c >= 0 else '(%d)' % c


def poly_str(rng, var='x', deg=None):
    deg = deg or rng.randint(1, 4)
    terms = []
    for d in range(deg, -1, -1):
        c = ri(rng, -4, 4)
        if c == 0 and d != deg:
            continue
        if c == 0:
            c = 1
        if rng.random() < 0.2:
            c = '%d/%d' % (c, rng.choice([2, 3, 5]))
        t = {0: '%s' % c, 1: '%s * %s' % (c, var)}.get(d, '%s * %s ^ %d' % (c, var, d))
        terms.append('(%s)' % t if str(c).startswith('-') else t)
    return ' + '.join(terms)


def family(rng):
    """-> (body, lo, hi, conds, tag) with integration variable x"""
    fam = rng.choice(['poly', 'rational', 'trig', 'explog', 'sympow', 'sqrt', 'nested', 'improper', 'mixed'])
    if fam == 'poly':
        a = ri(rng, -3, 2)
        return poly_str(rng), str(a), str(a + ri(rng, 1, 3)), [], fam
    if fam == 'rational':
        body, lo, hi = rng.choice([
            ('1 / (x ^ 2 + 1)', '0', '1'), ('x / (x ^ 2 + 1)', '0', '2'), ('1 / (x + 3)', '-1', '2'),
            ('(x + 1) / (x ^ 2 + 2 * x + 5)', '0', '1'), ('1 / (x ^ 2 - 9)', '0', '2'), ('1 / x', '1', '3'),
            ('1 / x ^ 2', '1', '2'), ('(2 * x + 1) / (x ^ 2 + x + 1)', '-1', '1'), ('x ^ 2 / (x + 2)', '0', '1'),
            ('1 / ((x + 1) * (x + 2))', '0', '1'), ('1 / x', '-3', '-1'), ('1 / (4 - x ^ 2)', '-1', '1'),
            ('(x ^ 3 + 1) / (x + 1)', '0', '2'), ('1 / (x ^ 2 + 4)', '-2', '2')])
        return body, lo, hi, [], fam
    if fam == 'trig':
        body, lo, hi = rng.choice([
            ('sin(2 * x)', '0', 'pi / 2'), ('cos(x) ^ 2', '0', 'pi'), ('sin(x) * cos(x)', '0', 'pi / 2'),
            ('x * sin(x)', '0', 'pi'), ('tan(x)', '0', '1'), ('sin(x) ^ 2 * cos(x)', '0', 'pi / 2'),
            ('cos(3 * x)', '-1', '1'), ('sin(x) ^ 3', '0', 'pi'), ('sec(x) ^ 2', '0', 'pi / 4'),
            ('1 / (1 + cos(x))', '0', 'pi / 2'), ('x * cos(x ^ 2)', '0', '1'), ('sin(x) / (1 + cos(x) ^ 2)', '0', 'pi'),
            ('cot(x)', 'pi / 4', 'pi / 2'), ('csc(x) ^ 2', 'pi / 4', 'pi / 2'), ('sin(x)', '-pi', 'pi / 2')])
        return body, lo, hi, [], fam
    if fam == 'explog':
        body, lo, hi = rng.choice([
            ('exp(2 * x)', '0', '1'), ('x * exp(x)', '0', '1'), ('exp(-x)', '-1', '2'), ('log(x)', '1', '3'),
            ('x * log(x)', '1', '2'), ('log(x + 1)', '0', '1'), ('1 / (x * log(x))', '2', '3'),
            ('exp(x) / (1 + exp(x))', '0', '1'), ('log(x) / x', '1', 'exp(1)'), ('x * exp(-x ^ 2)', '0', '2'),
            ('exp(x) * sin(x)', '0', 'pi'), ('log(x) ^ 2', '1', '2'), ('2 ^ x', '0', '2'), ('exp(-2 * x)', '-1', '1')])
        return body, lo, hi, [], fam
    if fam == 'sympow':
        body, lo, hi, conds = rng.choice([
            ('x ^ n', '0', '1', ['n > 0']), ('x ^ (a - 1)', '1', '2', ['a > 0']), ('x ^ a * log(x)', '1', '2', ['a > 0']),
            ('exp(-a * x)', '0', '2', ['a > 0']), ('1 / (x ^ 2 + a ^ 2)', '0', '1', ['a > 0']),
            ('x ^ n * (1 - x) ^ m', '0', '1', ['n >= 0', 'm >= 0']), ('a * x + b', '0', '1', []),
            ('x ^ a', '0', '1', ['a > 0']), ('(x + a) ^ 2', '0', 'a', ['a > 0']), ('exp(a * x)', '0', '1', ['a != 0']),
            ('sin(a * x)', '0', 'pi', ['a > 0']), ('x ^ (-a)', '1', '2', ['a > 1']), ('a ^ x', '0', '1', ['a > 1']),
            ('x ^ k', '-1', '1', ['k >= 0'])])
        return body, lo, hi, list(conds), fam
    if fam == 'sqrt':
        body, lo, hi = rng.choice([
            ('sqrt(x)', '0', '4'), ('1 / sqrt(x)', '0', '1'), ('sqrt(1 - x ^ 2)', '0', '1'), ('x * sqrt(x ^ 2 + 1)', '0', '1'),
            ('1 / sqrt(1 - x ^ 2)', '0', '1/2'), ('sqrt(x + 1)', '-1', '3'), ('x / sqrt(x + 1)', '0', '3'),
            ('sqrt(x ^ 2)', '-1', '2'), ('x ^ (3/2)', '0', '1'), ('1 / (1 + sqrt(x))', '0', '4'), ('sqrt(4 - x ^ 2)', '-2', '2'),
            ('x ^ (1/3)', '0', '8'), ('(x ^ 2) ^ (1/2)', '-2', '1')])
        return body, lo, hi, [], fam
    if fam == 'nested':
        body, lo, hi = rng.choice([
            ('INT y:[0,x]. x * y', '0', '1'), ('INT y:[0,1]. x * y ^ 2 + y', '0', '2'), ('INT y:[x,1]. exp(y)', '0', '1'),
            ('x * (INT y:[0,2]. sin(y) * x)', '0', '1'), ('INT y:[0,x]. 1 / (1 + y ^ 2)', '0', '1')])
        return body, lo, hi, [], fam
    if fam == 'improper':
        body, lo, hi, conds = rng.choice([
            ('exp(-x)', '0', 'oo', []), ('1 / (1 + x ^ 2)', '-oo', 'oo', []), ('1 / x ^ 2', '1', 'oo', []),
            ('x * exp(-x ^ 2)', '0', 'oo', []), ('exp(-x ^ 2)', '-oo', 'oo', []), ('1 / (x ^ 2 + x + 1)', '-oo', 'oo', []),
            ('log(x) / x ^ 2', '1', 'oo', []), ('exp(x)', '-oo', '0', []), ('1 / sqrt(x)', '0', '1', []),
            ('exp(-a * x)', '0', 'oo', ['a > 0']), ('x * exp(-x)', '0', 'oo', []), ('1 / (x ^ 2 + a ^ 2)', '0', 'oo', ['a > 0']),
            ('log(x)', '0', '1', []), ('x ^ 2 * exp(-x)', '0', 'oo', []), ('1 / x ^ (3/2)', '1', 'oo', []),
            ('1 / (1 + x ^ 2)', '-oo', '0', []), ('1 / (x ^ 2 + 4)', '-oo', '1', []), ('x * exp(-x ^ 2)', '-oo', '0', []),
            ('exp(2 * x)', '-oo', '1', []), ('1 / (1 + x ^ 2)', '1', 'oo', []), ('1 / x ^ 2', '-oo', '-1', []),
            ('1 / (x ^ 2 + a ^ 2)', '-oo', '0', ['a > 0'])])
        return body, lo, hi, list(conds), fam
    b1, lo, hi, c1, _ = family(rng)
    if lo in ('-oo',) or hi in ('oo',):
        return b1, lo, hi, c1, 'mixed'
    b2 = rng.choice(['x', 'x ^ 2', '1', 'sin(x)', 'exp(x)', poly_str(rng, deg=2)])
    c = ri(rng, -3, 3, nz=True)
    return '%s %s %d * (%s)' % (b1, rng.choice(['+', '-']), abs(c), b2), lo, hi, c1, 'mixed'


def integral_str(body, lo, hi, var='x'):
    return 'INT %s:[%s,%s]. %s' % (var, lo, hi, body)


SUBST_G = ['x + 1', '2 * x', '-x', '1 - x', '3 - 2 * x', 'x ^ 2', 'x ^ 2 + 1', 'sqrt(x)', 'exp(x)', 'log(x)', 'sin(x)',
           'cos(x)', 'tan(x)', '1 / x', 'x ^ 3', '1 - x ^ 2', '-(x ^ 2)', 'exp(-x)', 'x / 2', '-3 * x', 'sqrt(x + 1)',
           'x ^ 2 + x + 1', 'log(x + 1)', 'atan(x)', 'x + a', 'a * x', '1 + cos(x)', 'x - 1', 'exp(2 * x)', '1 + sqrt(x)',
           '4 - x ^ 2', 'x ^ 2 / 2', 'pi / 2 - x', 'pi - x', '1 / (x + 1)', 'sin(x) ^ 2', '1 + exp(x)', '-1 / x']
SUBST_F = ['sin(u)', 'tan(u)', 'u ^ 2', '2 * u', 'u + 1', 'exp(u)', '1 / u', '-u', '1 - u', '2 * sin(u)', 'sqrt(u)', 'cos(u)',
           'u - 2', '3 * u', 'u / 2', 'log(u)', 'u ^ 3', '2 * tan(u)', '-(u ^ 2)', 'a * u']
PARTS_U = ['x', 'x ^ 2', 'log(x)', 'atan(x)', 'exp(x)', 'sin(x)', 'x + 1', 'log(x) ^ 2', 'cos(x)', '1 / x', 'sqrt(x)',
           'x ^ n', 'asin(x)', 'log(x + 1)']
PARTS_V = ['exp(x)', 'sin(x)', '-cos(x)', 'x', 'x ^ 2 / 2', 'log(x)', 'exp(2 * x) / 2', '-exp(-x)', 'x ^ 3 / 3', 'tan(x)',
           '-1 / x', 'atan(x)', '2 * sqrt(x)', 'x ^ (n + 1) / (n + 1)']
PARTS_RANGE = [('0', '1'), ('1', '2'), ('0', 'pi / 2'), ('1', 'exp(1)'), ('1/2', '1'), ('0', 'oo'), ('1', 'oo'), ('0', 'pi'),
               ('-1', '1'), ('1/4', '1/2')]

REWRITES = [('x ^ 2', 'x * x'), ('sqrt(x ^ 2)', 'x'), ('sqrt(x ^ 2)', 'abs(x)'), ('(x ^ a) ^ b', 'x ^ (a * b)'),
            ('1 / (1 / x)', 'x'), ('x / x', '1'), ('sin(x) ^ 2', '1 - cos(x) ^ 2'), ('log(x ^ 2)', '2 * log(x)'),
            ('exp(x) * exp(y)', 'exp(x + y)'), ('(x + 1) ^ 2', 'x ^ 2 + 2 * x + 1'), ('(x - 1) * (x + 1)', 'x ^ 2 - 1'),
            ('x ^ 2 - 1', '(x - 1) * (x + 1)'), ('1 / (x ^ 2 - 1)', '1/2 * (1 / (x - 1) - 1 / (x + 1))'),
            ('sqrt(x) * sqrt(x)', 'x'), ('sqrt(x * y)', 'sqrt(x) * sqrt(y)'), ('abs(x)', 'x'), ('(x ^ 2) ^ (1/2)', 'x'),
            ('(x ^ 3) ^ (1/3)', 'x'), ('x ^ (1/2) * x ^ (1/2)', 'x'), ('tan(x)', 'sin(x) / cos(x)'),
            ('log(x * y)', 'log(x) + log(y)'), ('log(x / y)', 'log(x) - log(y)'), ('atan(tan(x))', 'x'),
            ('sin(asin(x))', 'x'), ('(x * y) ^ a', 'x ^ a * y ^ a'), ('exp(a * log(x))', 'x ^ a'), ('x ^ a * x ^ b', 'x ^ (a + b)'),
            ('(x ^ 2) ^ (3/2)', 'x ^ 3'), ('sqrt(x ^ 4)', 'x ^ 2'), ('x ^ 2 / x', 'x'), ('(x ^ 2 - 1) / (x - 1)', 'x + 1'),
            ('sqrt(x ^ 2 + 2 * x + 1)', 'x + 1'), ('1 / sqrt(x ^ 2)', '1 / x'), ('exp(log(x))', 'x'), ('log(exp(x))', 'x'),
            ('cos(x) ^ 2', '(1 + cos(2 * x)) / 2'), ('sqrt(1 - sin(x) ^ 2)', 'cos(x)'), ('abs(x) ^ 2', 'x ^ 2'),
            ('(-x) ^ 2', 'x ^ 2'), ('(1 / x) ^ a', 'x ^ (-a)'), ('x * x ^ (-1)', '1'), ('sqrt(x) ^ 2', 'x'),
            ('(x - 1) ^ 2', '(1 - x) ^ 2'), ('sqrt((x - 1) ^ 2)', 'x - 1'), ('log(abs(x))', 'log(x)'),
            ('x ^ (-1/2) * x', 'sqrt(x)'), ('atan(1 / x)', 'pi / 2 - atan(x)'), ('(x ^ 6) ^ (1/2)', 'x ^ 3')]
COND_SETS = [[], ['x > 0'], ['x < 0'], ['x >= 0'], ['x != 0'], ['x > 0', 'y > 0'], ['x > 1'], ['x > -1', 'x < 1'],
             ['x > 0', 'a > 0'], ['x < 0', 'y < 0'], ['a > 0'], ['x > 0', 'x < 1']]

ALG_ATOMS = ['x', 'y', 'a', '2', '3', '-1', '1/2', 'x', 'x']
ALG_SPECIAL = ['(x ^ 2) ^ (1/2)', 'sqrt(x ^ 2)', 'x / x', 'x ^ a * x ^ b', 'sqrt(x * y)', 'log(exp(x))', 'exp(log(x))',
               'log(x ^ 2)', 'sqrt(x) * sqrt(x)', '(-x) ^ 2', 'abs(x) ^ 2', 'x ^ (1/2) * x ^ (1/2)', '1 / (1 / x)',
               'sin(asin(x))', 'atan(tan(x))', 'cos(-x)', '(x * y) ^ (1/2)', '(x ^ 2 * y) ^ (1/2)', 'x ^ 2 / x',
               'x * x ^ (-1)', '(x ^ 2 - 1) / (x - 1)', 'sqrt(x ^ 4)', '(x ^ 3) ^ (1/3)', 'exp(x) * exp(-x)', 'log(1 / x)',
               'log(x ^ a)', '(x ^ a) ^ b', '(x ^ 2) ^ a', '2 ^ (x + 1)', 'exp(2 * log(x))', '(-x) ^ (1/3)', 'sqrt(x) / x',
               'x / sqrt(x)', 'sqrt(x ^ 2 * y ^ 2)', '(4 * x ^ 2) ^ (1/2)', '(-(x ^ 2)) ^ 2', 'abs(x) / x', 'abs(-x)',
               'sqrt(x) ^ 2', '(x ^ (1/2)) ^ 2', '(-3 * x) ^ (1/2)', 'sqrt(-4 * x)', '(-2 * x * y) ^ (1/2)', '1 / sqrt(-(x / 3))', '(-x) ^ (3/2)',
               '(-8 * x ^ 3) ^ (1/3)', '(9 * x ^ 2) ^ (1/2)', '(-5 * y) ^ (-1/2)', '(x ^ 2) ^ (1/4)', 'x ^ (-1/2) * x', 'tan(atan(x))', 'cot(acot(x))',
               'acot(cot(x))', 'exp(x + log(y))', 'log(x * y)', '(x / y) ^ (1/2)', 'sqrt(x / y)', '(x ^ (-2)) ^ (1/2)',
               'x ^ 0', '0 ^ x', '1 ^ x', '(x - y) ^ 2 ^ (1/2)', 'sqrt((x - y) ^ 2)', 'sin(x) / sin(x)', 'sin(x) ^ 2 + cos(x) ^ 2']


def alg_expr(rng, depth=3):
    """random algebraic expression string over x, y, a"""
    if depth <= 0 or rng.random() < 0.15:
        return rng.choice(ALG_ATOMS)
    r = rng.random()
    if r < 0.22:
        return '(%s)' % rng.choice(ALG_SPECIAL)
    if r < 0.62:
        op = rng.choice(['+', '-', '*', '*', '/'])
        return '(%s %s %s)' % (alg_expr(rng, depth - 1), op, alg_expr(rng, depth - 1))
    if r < 0.78:
        ex = rng.choice(['2', '3', '1/2', '-1', '-2', '3/2', '1/3', 'a', '(-1/2)', '4'])
        return '(%s) ^ %s' % (alg_expr(rng, depth - 1), ex)
    if r < 0.82:
        return '-(%s)' % alg_expr(rng, depth - 1)
    f = rng.choice(['sqrt', 'abs', 'exp', 'log', 'sin', 'cos', 'tan', 'atan', 'sqrt', 'abs', 'log'])
    return '%s(%s)' % (f, alg_expr(rng, depth - 1))


LIMITS = ['LIM {x -> oo}. (2 * x ^ 2 + 1) / (x ^ 2 + 3)', 'LIM {x -> 0}. sin(x) / x', 'LIM {x -> 0}. (exp(x) - 1) / x',
          'LIM {x -> oo}. x * exp(-x)', 'LIM {x -> oo}. log(x) / x', 'LIM {x -> 0}. (x + 1) / (x + 2)',
          'LIM {x -> 1}. (x ^ 2 - 1) / (x - 1)', 'LIM {x -> oo}. atan(x)', 'LIM {x -> 0 +}. x * log(x)',
          'LIM {x -> oo}. sqrt(x ^ 2 + x) - x', 'LIM {x -> oo}. exp(-a * x)', 'LIM {x -> oo}. 1 / x + 3',
          'LIM {x -> oo}. (x + 1) / (2 * x - 1)', 'LIM {x -> 0}. (1 - cos(x)) / x ^ 2', 'LIM {x -> 0}. tan(x) / x',
          'LIM {x -> oo}. x / (x + 1)', 'LIM {x -> 2}. (x ^ 2 + 1) / (x + 1)', 'LIM {x -> oo}. (3 * x + 2) / sqrt(x ^ 2 + 1)',
          'LIM {x -> oo}. exp(-x) * sin(x)', 'LIM {x -> 0}. log(1 + x) / x', 'LIM {x -> oo}. x ^ 2 * exp(-x)',
          'LIM {x -> 1}. log(x) / (x - 1)', 'LIM {x -> 0}. (sin(x) + 1) / (cos(x) + 1)', 'LIM {x -> oo}. (x ^ 3 + x) / (2 * x ^ 3 + 5)',
          'LIM {x -> oo}. atan(x) / x', 'LIM {x -> 0}. x / sin(2 * x)', 'LIM {x -> oo}. x * sin(1 / x)',
          'LIM {x -> oo}. (1 + 1 / x) ^ 2', 'LIM {x -> -oo}. exp(x)', 'LIM {x -> oo}. x ^ (-a)', 'LIM {x -> oo}. log(x + 1) - log(x)',
          'LIM {x -> 0}. (x ^ 2 + 3 * x) / (2 * x)', 'LIM {x -> 3}. (x - 1) / (x + 1)', 'LIM {x -> oo}. (exp(x) + 1) / (exp(x) - 1)']

DERIVS = ['sin(x) ^ 2', 'cot(2 * x)', 'acot(x)', 'asin(x / 2)', 'tan(3 * x)', 'sec(x)', 'csc(2 * x)', 'x ^ x', 'a ^ x', 'x ^ a',
          'sqrt(x ^ 2 + 1)', 'log(x ^ 2 + 1)', 'exp(x) * sin(x)', 'x / (x + 1)', '1 / x ^ 3', 'atan(x ^ 2)', 'acos(x / 3)',
          'log(sin(x))', 'exp(-x ^ 2)', '(x ^ 2 + 1) ^ a', 'sin(a * x) / a', 'x * log(x) - x', 'sqrt(x) * exp(x)', '2 ^ x',
          'cos(x) / x', 'cot(x) ^ 2', 'x ^ 3 * cos(2 * x)', '1 / (x ^ 2 + a ^ 2)', 'INT y:[0,x]. sin(y * x)', 'INT y:[x,2 * x]. y ^ 2',
          'x ^ (1/3)', 'log(x) / x', 'atan(1 / x)', '(x + 1) ^ 3 / (x - 4)', 'exp(a * x) * cos(x)', 'sin(x) ^ a', 'abs(x)',
          'sinh(x)', 'cosh(2 * x)', 'acot(x ^ 2)', 'csc(x) ^ 2', 'sec(x) ^ 2', 'tan(x) ^ 2', 'cot(x) * x']


# ------------------------------------------------------------------------------------------ scenarios
def sh(s):
    return O.jsonable(O.to_shadow(P(s)))


def sc_linearity(rng):
    b, lo, hi, conds, tag = family(rng)
    c = ri(rng, -3, 3, nz=True)
    body = rng.choice(['%d * (%s)' % (c, b), '(%s) / %d' % (b, abs(c) + 1), '-(%s)' % b, '(%s) + a * x' % b, 'a * (%s)' % b,
                       '(%s) / a' % b, b])
    if 'a' in body.replace('atan', '').replace('tan', '').replace('abs', '') and 'a != 0' not in conds and 'a > 0' not in conds and 'a > 1' not in conds:
        conds = conds + ['a != 0']
    return {'conds': conds}, integral_str(body, lo, hi), [{'name': 'Linearity'}, {'name': 'FullSimplify'}], 'linearity/' + tag


def sc_fullsimplify(rng):
    b, lo, hi, conds, tag = family(rng)
    return {'conds': conds}, integral_str(b, lo, hi), [{'name': rng.choice(['FullSimplify', 'Simplify'])}], 'simplify/' + tag


def sc_even_root(rng):
    """powers of powers whose collapse needs a sign condition: (f^2)^(p/2), sqrt(f^2), ((f)^4)^(1/4) with f a linear image
    of x (or a trigonometric function) that changes sign on the range"""
    lin = rng.choice(['x', 'x', 'x - 1', 'x + 1', 'x - 2', '2 * x', '-x', 'x - 1/2', 'cos(x)', 'sin(x)'])
    form = rng.choice(['((%s) ^ 2) ^ (1/2)', '((%s) ^ 2) ^ (3/2)', '((%s) ^ 2) ^ (3/2)', '((%s) ^ 4) ^ (1/4)', '((%s) ^ 4) ^ (1/2)',
                       'sqrt((%s) ^ 2)', '((%s) ^ 2) ^ (1/2) * x', '1 + ((%s) ^ 2) ^ (5/2)', '((%s) ^ 6) ^ (1/2)'])
    body = form % lin
    lo, hi = rng.choice([('-2', '1'), ('-2', '-1'), ('-1', '2'), ('-3', '-1'), ('0', '3'), ('-1', '1'), ('1', '3'), ('-3', '0'),
                         ('0', 'pi'), ('pi / 2', 'pi'), ('-pi', '0')])
    chain = [{'name': rng.choice(['FullSimplify', 'FullSimplify', 'Simplify'])}]
    if rng.random() < 0.3:
        chain = [{'name': 'Substitution', 'var_name': 'u', 'var_subst': sh(rng.choice(['x - 2', 'x + 1', '2 * x', '-x']))}] + chain
    return {'conds': []}, integral_str(body, lo, hi), chain, 'evenroot'


def sc_identity_eval(rng):
    b, lo, hi, conds, tag = family(rng)
    return {'conds': conds}, integral_str(b, lo, hi), [{'name': 'DefiniteIntegralIdentity'}, {'name': 'FullSimplify'}], 'table/' + tag


def sc_substitution(rng):
    b, lo, hi, conds, tag = family(rng)
    if rng.random() < 0.3:
        lo, hi = rng.choice([('-1', '1'), ('-2', '1'), ('0', '2'), ('-1', '2'), ('1', '4'), ('0', 'pi'), ('-pi / 2', 'pi / 2'),
                             ('1/2', '2'), ('-3', '-1')])
    g = rng.choice(SUBST_G)
    if 'a' in g.replace('atan', '').replace('tan', '') and not any(c.startswith('a ') for c in conds):
        conds = conds + [rng.choice(['a > 0', 'a < 0', 'a != 0'])]
    chain = [{'name': 'Substitution', 'var_name': 'u', 'var_subst': sh(g)}]
    if rng.random() < 0.6:
        chain.append({'name': 'FullSimplify'})
    return {'conds': conds}, integral_str(b, lo, hi), chain, 'subst/' + tag


def sc_substitution_targeted(rng):
    """integrands of the form f(g(x)) * g'(x) so that the substitution clears x"""
    g, gp, lo, hi = rng.choice([
        ('x ^ 2', '2 * x', '0', '2'), ('x ^ 2', '2 * x', '-1', '2'), ('x ^ 2', '2 * x', '-2', '-1'), ('sin(x)', 'cos(x)', '0', 'pi / 2'),
        ('cos(x)', '-sin(x)', '0', 'pi / 2'), ('cos(x)', '-sin(x)', '0', 'pi'), ('exp(x)', 'exp(x)', '0', '1'),
        ('log(x)', '1 / x', '1', '3'), ('1 - x', '-1', '0', '1'), ('-x', '-1', '-1', '2'), ('3 - 2 * x', '-2', '0', '1'),
        ('x ^ 2 + 1', '2 * x', '0', '1'), ('sqrt(x)', '1 / (2 * sqrt(x))', '1', '4'), ('1 / x', '-1 / x ^ 2', '1', '2'),
        ('1 - x ^ 2', '-2 * x', '0', '1'), ('tan(x)', 'sec(x) ^ 2', '0', 'pi / 4'), ('x ^ 3', '3 * x ^ 2', '-1', '1'),
        ('exp(-x)', '-exp(-x)', '0', 'oo'), ('x ^ 2', '2 * x', '0', 'oo'), ('sin(x)', 'cos(x)', '0', 'pi'),
        ('x ^ 2', '2 * x', '-1', '1'), ('cos(x)', '-sin(x)', '-pi / 2', 'pi / 2'), ('1 / x', '-1 / x ^ 2', '1', 'oo'),
        ('a * x', 'a', '0', '1'), ('-a * x', '-a', '0', '1'), ('x - x ^ 2', '1 - 2 * x', '0', '1')])
    f = rng.choice(['u', 'u ^ 2', 'exp(u)', '1 / (1 + u ^ 2)', 'sin(u)', 'sqrt(u + 2)', '1 / (u + 3)', 'u * exp(-u)', 'cos(u) ^ 2', '1'])
    body = '(%s) * (%s)' % (f.replace('u', '(' + g + ')'), gp)
    conds = [rng.choice(['a > 0', 'a < 0'])] if 'a' in g else []
    chain = [{'name': 'Substitution', 'var_name': 'u', 'var_subst': sh(g)}]
    if rng.random() < 0.5:
        chain.append({'name': 'FullSimplify'})
    return {'conds': conds}, integral_str(body, lo, hi), chain, 'subst-targeted'


def sc_subst_inverse(rng):
    b, lo, hi, conds, tag = family(rng)
    if rng.random() < 0.5:
        b, lo, hi = rng.choice([('sqrt(1 - x ^ 2)', '0', '1'), ('1 / (1 + x ^ 2)', '0', '1'), ('1 / sqrt(4 - x ^ 2)', '0', '1'),
                                ('x ^ 2', '0', '4'), ('exp(x)', '0', '1'), ('1 / x', '1', '2'), ('x', '-1', '2'),
                                ('1 / (x ^ 2 + 4)', '0', '2'), ('sqrt(1 - x ^ 2)', '-1', '1'), ('x ^ 2', '-1', '1'),
                                ('1 / (1 + x ^ 2)', '-oo', 'oo'), ('exp(-x)', '0', 'oo')])
        conds = []
    f = rng.choice(SUBST_F)
    if 'a' in f.replace('tan', ''):
        conds = conds + [rng.choice(['a > 0', 'a < 0'])]
    chain = [{'name': 'SubstitutionInverse', 'var_name': 'u', 'var_subst': sh(f)}]
    if rng.random() < 0.5:
        chain.append({'name': 'FullSimplify'})
    return {'conds': conds}, integral_str(b, lo, hi), chain, 'subst-inverse/' + tag


def sc_parts(rng, indefinite=False):
    from integral import rules
    from integral.context import Context
    u, v = rng.choice(PARTS_U), rng.choice(PARTS_V)
    conds = ['n > 0'] if ('n' in u.replace('sin', '').replace('tan', '') or 'n' in v.replace('sin', '').replace('tan', '')) else []
    lo, hi = rng.choice(PARTS_RANGE)
    mon_off_ctx = make_ctx({'conds': conds})
    with quiet():
        dv = rules.deriv('x', P(v), mon_off_ctx)
    body = '(%s) * (%s)' % (u, str(dv))
    chain = [{'name': 'IntegrationByParts', 'u': sh(u), 'v': sh(v)}]
    if rng.random() < 0.5:
        chain.append({'name': 'FullSimplify'})
    if indefinite:
        return {'conds': conds}, 'INT x. %s' % body, chain, 'parts-indefinite'
    return {'conds': conds}, integral_str(body, lo, hi), chain, 'parts'


def sc_parts_indef(rng):
    return sc_parts(rng, True)


def sc_split(rng):
    b, lo, hi, conds, tag = family(rng)
    c = rng.choice(['0', '1', '1/2', '-1', '2', 'pi / 4', '3', 'a', '-1/2', '5'])
    if c == 'a' and not any(x.startswith('a ') for x in conds):
        conds = conds + ['a > 0', 'a < 1']
    chain = [{'name': 'SplitRegion', 'c': sh(c)}]
    if rng.random() < 0.4:
        chain.append({'name': 'FullSimplify'})
    return {'conds': conds}, integral_str(b, lo, hi), chain, 'split/' + tag


def sc_expand(rng):
    body = rng.choice(['(x + 1) ^ 3 * (x - 2)', '(x ^ 2 + 1) ^ 2 / x', '(a + x) ^ 2', '(sqrt(x) + 1) ^ 2', '(x - 1) * (x + 1) * (x + 2)',
                       '(2 * x - 3) ^ 4', '(x + 1 / x) ^ 2', '(exp(x) + 1) ^ 2', '(x ^ 2 - x + 1) * (x + 1)', '(x + a) * (x - a)',
                       '(sin(x) + cos(x)) ^ 2', '(x + 1) ^ 2 / (x + 1)', '(1 - x) ^ 3 * x ^ 2', '(x + 2) ^ 2 / x ^ 2',
                       '(x ^ (1/2) + x) ^ 2', '(x - 2) ^ 2 * (x + a)', '(x + 1) / (x ^ 2 + 2 * x + 1)', '((x + 1) ^ 2) ^ 2'])
    lo, hi = rng.choice([('1', '2'), ('1/2', '3'), ('1', '4')])
    e = integral_str(body, lo, hi) if rng.random() < 0.7 else body
    conds = ['x > 0'] if not e.startswith('INT') else []
    chain = [{'name': 'ExpandPolynomial'}]
    if rng.random() < 0.5:
        chain.append({'name': 'FullSimplify'})
    return {'conds': conds}, e, chain, 'expand'


def sc_elim_inf(rng):
    while True:
        b, lo, hi, conds, tag = family(rng)
        if tag == 'improper' and ('oo' in lo or 'oo' in hi):
            break
    if rng.random() < 0.15:
        lo, hi = hi, lo
    chain = [{'name': 'ElimInfInterval', 'a': sh(rng.choice(['0', '1', '-1'])), 'new_var': 't'}]
    r = rng.random()
    if r < 0.5:
        chain += [{'name': 'DefiniteIntegralIdentity'}, {'name': 'FullSimplify'}]
    elif r < 0.8:
        chain += [{'name': 'FullSimplify'}]
    return {'conds': conds}, integral_str(b, lo, hi), chain, 'elim-inf'


def sc_indefinite(rng):
    body = rng.choice(['x ^ 3', '1 / x', 'exp(2 * x)', 'sin(3 * x)', '1 / (x ^ 2 + 4)', 'cos(x) ^ 2', 'sqrt(x)', '1 / sqrt(x)',
                       'x ^ n', 'cos(a * x)', '1 / (x + a)', '2 ^ x', 'sec(x) ^ 2', 'csc(x) ^ 2', '3 * x ^ 2 + 2 * x', 'exp(-x)',
                       'x ^ k * log(x)', '1 / x ^ 3', '5', 'a', 'x * exp(x ^ 2)', '2 * x * cos(x ^ 2)', '1 / (x ^ 2 + 1)', 'sin(x) - 4 * cos(x)'])
    conds = []
    if 'n' in body.replace('sin', ''):
        conds.append('n != -1')
    if 'a' in body.replace('exp', 'e'):
        conds.append('a != 0')
    if 'k' in body:
        conds += ['k > 0', 'x > 0']
    r = rng.random()
    if r < 0.55:
        chain = [{'name': 'IndefiniteIntegralIdentity'}, {'name': 'FullSimplify'}]
    elif r < 0.75:
        chain = [{'name': 'Linearity'}, {'name': 'IndefiniteIntegralIdentity'}]
    else:
        g = rng.choice(['x ^ 2', '2 * x', 'a * x', '3 * x', 'x + a', 'x ^ 2 + 1', '-x'])
        if 'a' in g and 'a != 0' not in conds:
            conds.append('a != 0')
        chain = [{'name': 'Substitution', 'var_name': 'u', 'var_subst': sh(g)}, {'name': 'FullSimplify'},
                 {'name': 'IndefiniteIntegralIdentity'}, {'name': 'ReplaceSubstitution'}]
    return {'conds': conds}, 'INT x. %s' % body, chain, 'indefinite'


def sc_equation(rng):
    old, new = rng.choice(REWRITES)
    conds = list(rng.choice(COND_SETS))
    r = rng.random()
    if r < 0.45:
        e = old
        rule = {'name': 'Equation', 'old_expr': None, 'new_expr': sh(new)}
    elif r < 0.8:
        lo, hi = rng.choice([('-1', '2'), ('1', '2'), ('-2', '-1'), ('0', '1'), ('1/2', '3/2')])
        e = integral_str('(%s) * x + 1' % old, lo, hi)
        conds = [c for c in conds if not c.startswith('x')]
        rule = {'name': 'Equation', 'old_expr': sh(old), 'new_expr': sh(new)}
    else:
        e = '(%s) + y' % old
        rule = {'name': 'Equation', 'old_expr': sh(old), 'new_expr': sh(new)}
    chain = [rule]
    return {'conds': conds}, e, chain, 'equation'


def sc_algebra(rng):
    e = alg_expr(rng, rng.choice([2, 3, 3, 4]))
    conds = list(rng.choice(COND_SETS))
    return {'conds': conds}, e, [{'name': rng.choice(['Simplify', 'FullSimplify', 'FullSimplify'])}], 'algebra'


def sc_power(rng):
    e = rng.choice(['(x ^ 2) ^ (1/2)', '(x ^ a) ^ b', '(-x) ^ 2', '(-x) ^ (1/2)', '2 ^ (x + 3)', '(1 / x ^ 2) ^ 3', 'exp(2 * log(x))',
                    '(-a - b) ^ 3', '(x ^ 3) ^ (1/3)', '3 ^ (x - 2)', '(x ^ (1/2)) ^ 2', '(-x) ^ 3', '(1 / x ^ a) ^ b', 'exp(a * log(x))',
                    '(x ^ 2) ^ (3/2)', '(x ^ 4) ^ (1/4)', '(-x - y) ^ 2', '(x ^ (-2)) ^ (1/2)', '((x + 1) ^ 2) ^ (1/2)', 'exp(y * log(x))'])
    conds = list(rng.choice(COND_SETS))
    return {'conds': conds}, e, [{'name': 'SimplifyPower'}], 'power'


def sc_identity(rng):
    """ApplyIdentity with a target offered by the rule's own search"""
    from integral import rules
    src = rng.choice(['sin(x) ^ 2', 'cos(2 * x)', 'sin(a + b)', 'log(x * y)', '(a * b) ^ k', 'x ^ a * x ^ b', 'a ^ x ^ y', 'exp(a) ^ b',
                      'log(x ^ a)', 'atan(x ^ -1)', 'tan(x)', 'sec(x) ^ 2', 'cos(x) ^ 2', 'sin(2 * x)', 'cos(a - b)', 'sin(a) * cos(b)',
                      'cos(a) + cos(b)', 'log(a / b)', '(a / b) ^ k', 'exp(a + b)', 'exp(a - b)', 'cot(x)', 'sin(acos(x))', '1 / sin(x) ^ n',
                      'sin(x) ^ n', 'tan(a - b)', 'sin(-x)', 'x ^ (a * b)', 'x ^ (a + b)', 'a ^ k * b ^ k', 'log(x) - log(y)',
                      'log(x ^ 2)', '(x * y) ^ (1/2)', '(x ^ 2) ^ (1/2)', 'x ^ (2 * (1/2))', 'exp(x) ^ (1/2)', '(x / y) ^ (1/2)',
                      '((-2) * 3) ^ (1/2)', 'x ^ 2 ^ (1/2)', 'log((-2) * (-3))'])
    conds = list(rng.choice(COND_SETS + [[], [], []]))
    ctx = make_ctx({'conds': conds})
    with quiet():
        try:
            targets = rules.ApplyIdentity.search(P(src), ctx)
        except Exception:
            targets = []
    if not targets:
        return None
    tgt = targets[rng.randrange(len(targets))]
    wrap = rng.random()
    e = src if wrap < 0.6 else '(%s) + 1' % src
    return {'conds': conds}, e, [{'name': 'ApplyIdentity', 'source': sh(src), 'target': O.jsonable(O.to_shadow(tgt))}], 'identity'


def sc_limit(rng):
    e = rng.choice(LIMITS)
    conds = ['a > 0'] if 'a' in e.replace('atan', '').replace('tan', '') else []
    r = rng.random()
    if r < 0.35:
        chain = [{'name': 'FullSimplify'}]
    elif r < 0.6:
        chain = [{'name': 'ReduceLimit'}]
    elif r < 0.85:
        chain = [{'name': 'LHopital'}, {'name': 'FullSimplify'}]
    else:
        chain = [{'name': 'Linearity'}]
    return {'conds': conds}, e, chain, 'limit'


def sc_limit_sides(rng):
    """limits whose value depends on the SIDE from which an inner sum approaches 0: two terms of opposite sign and
    different decay rates (1/x - 1/x^2, 1/x^2 - 1/x, 1/x - exp(-x), ...) under a function that is one-sided at 0
    (atan(1/.), exp(-1/.), 1/.)"""
    fast, slow = rng.choice([('1/x^2', '1/x'), ('1/x^3', '1/x'), ('exp(-x)', '1/x'), ('1/x^3', '1/x^2'), ('exp(-x)', '1/x^2'), ('exp(-2*x)', 'exp(-x)')])
    a, b = rng.choice([(slow, fast), (fast, slow)])
    inner = '%s - %s' % (a, b)
    outer = rng.choice(['atan(1/(%s))', 'exp(-1/(%s))', 'atan(-1/(%s))', 'exp(1/(%s)) / (1 + exp(1/(%s)))', 'atan(2/(%s))'])
    e = 'LIM {x->oo}. ' + (outer % ((inner,) * outer.count('%s')))
    chain = [{'name': rng.choice(['FullSimplify', 'FullSimplify', 'ReduceLimit'])}]
    return {'conds': []}, e, chain, 'limit-sides'


def sc_series(rng):
    r = rng.random()
    if r < 0.45:
        f, conds = rng.choice([('exp(x)', []), ('sin(x)', []), ('cos(x)', []), ('atan(x)', ['abs(x) < 1']), ('log(1 + x)', ['x > -1', 'x < 1']),
                               ('(1 + x) ^ -1', ['abs(x) < 1']), ('log(1 - x)', ['x > -1', 'x < 1']), ('exp(2 * x)', []),
                               ('atan(x / 2)', ['x > -1', 'x < 1']), ('log(1 + x ^ 2)', ['x > -1', 'x < 1'])])
        return {'conds': list(conds)}, f, [{'name': 'SeriesExpansionIdentity', 'old_expr': None, 'index_var': 'n'}], 'series-expand'
    if r < 0.58:
        f, lo, hi = rng.choice([('log(1 + x)', '0', '1/2'), ('exp(x)', '0', '1'), ('(1 + x) ^ -1', '0', '1/2'), ('atan(x)', '0', '1/2')])
        return {'conds': []}, integral_str(f, lo, hi), [{'name': 'SeriesExpansionIdentity', 'old_expr': sh(f), 'index_var': 'n'},
                                                        {'name': 'IntSumExchange'}, {'name': 'FullSimplify'}], 'series-integral'
    if r < 0.75:
        e = rng.choice(['SUM(n, 0, oo, 1 / (n + 1) ^ 2)', 'SUM(n, 0, oo, (-1) ^ n / (n + 1) ^ 2)', 'SUM(k, 0, oo, 1 / (k + 1) ^ 2)'])
        return {'conds': []}, e, [{'name': 'SeriesEvaluationIdentity'}], 'series-eval'
    if r < 0.9:
        e = rng.choice(['SUM(n, 0, oo, 1 / 2 ^ n) + SUM(k, 0, oo, 1 / 3 ^ k)', 'SUM(n, 0, oo, 1 / (n + 1) ^ 2) - SUM(k, 0, oo, 1 / (k + 1) ^ 3)',
                        'SUM(n, 0, 5, n ^ 2) + SUM(n, 0, 5, n)', 'SUM(n, 1, oo, 1 / n ^ 2) + SUM(k, 0, oo, 1 / 2 ^ k)',
                        'SUM(n, 0, oo, x ^ n / factorial(n)) - SUM(k, 0, oo, (-x) ^ k / factorial(k))'])
        return {'conds': []}, e, [{'name': 'MergeSummation'}], 'series-merge'
    e = rng.choice(['INT x:[0,1/2]. SUM(n, 0, oo, (-1) ^ n * x ^ n)', 'INT x:[0,1]. SUM(n, 0, oo, x ^ n / factorial(n))',
                    'SUM(n, 0, oo, (-1) ^ (2 * n) / 2 ^ n)', 'SUM(n, 0, oo, 3 * (1 / 2 ^ n))', 'SUM(n, 0, oo, a / 2 ^ n)',
                    'SUM(n, 0, 4, (-1) ^ (2 * n) * n)'])
    return {'conds': []}, e, [{'name': rng.choice(['IntSumExchange', 'SummationSimplify', 'Linearity', 'FullSimplify'])}], 'series-misc'


def sc_deriv(rng):
    r = rng.random()
    if r < 0.7:
        e = 'D x. %s' % rng.choice(DERIVS)
        conds = []
        if 'a' in e.replace('atan', '').replace('tan', '').replace('abs', '').replace('acos', '').replace('asin', '').replace('acot', ''):
            conds.append('a > 0')
        if rng.random() < 0.5:
            conds.append('x > 0')
        return {'conds': conds}, e, [{'name': rng.choice(['DerivativeSimplify', 'FullSimplify'])}], 'deriv'
    e = rng.choice(['D a. INT x:[0,1]. exp(a * x)', 'INT x:[0,1]. D a. sin(a * x)', 'D a. INT x:[0,a]. x * a', 'D a. INT x:[1,2]. x ^ a',
                    'INT x:[0,2]. D a. exp(-a * x ^ 2)', 'D a. INT x:[a,1]. cos(a * x)', 'D t. INT x:[0,1]. 1 / (x + t)',
                    'INT x:[1,3]. D a. a ^ 2 * log(x)', 'D a. INT x:[0,oo]. exp(-a * x)'])
    return {'conds': ['a > 0', 't > 0']}, e, [{'name': 'DerivIntExchange'}, {'name': 'FullSimplify'}], 'deriv-int-exchange'


def sc_eq_rules(rng):
    r = rng.random()
    if r < 0.2:
        eq = rng.choice(['(INT x:[0,a]. x) = a ^ 2 / 2', '(INT x:[0,1]. exp(a * x)) = (exp(a) - 1) / a', 'sin(a) ^ 2 + cos(a) ^ 2 = 1',
                         '(INT x:[0,1]. x ^ a) = 1 / (a + 1)'])
        return {'conds': ['a > 0']}, eq, [{'name': 'DerivEquation', 'var': 'a'}, {'name': 'FullSimplify'}], 'eq-deriv'
    if r < 0.4:
        eq = rng.choice(['(INT x:[0,1]. exp(-a * x)) = (1 - exp(-a)) / a', 'a / (a + 1) = 1 - 1 / (a + 1)',
                         '(INT x:[0,a]. exp(-x)) = 1 - exp(-a)', 'atan(a) + atan(1 / a) = pi / 2'])
        return {'conds': ['a > 0']}, eq, [{'name': 'LimitEquation', 'var': 'a', 'lim': sh('oo')}, {'name': 'FullSimplify'}], 'eq-limit'
    if r < 0.55:
        eq = rng.choice(['(D a. a ^ 2 * sin(a)) = 2 * a * sin(a) + a ^ 2 * cos(a)', '(D a. log(a ^ 2 + 1)) = 2 * a / (a ^ 2 + 1)',
                         '(D a. exp(3 * a)) = 3 * exp(3 * a)'])
        return {'conds': []}, eq, [{'name': 'IntegralEquation'}], 'eq-integrate'
    if r < 0.7:
        eq = rng.choice(['(INT x:[0,1]. x ^ a) = 1 / (a + 1)', 'sin(a + b) = sin(a) * cos(b) + cos(a) * sin(b)', '(a + b) ^ 2 = a ^ 2 + 2 * a * b + b ^ 2'])
        sub = rng.choice([[{'var': 'a', 'expr': sh('2')}], [{'var': 'a', 'expr': sh('b + 1')}], [{'var': 'a', 'expr': sh('1/2')}, {'var': 'b', 'expr': None}]])
        return {'conds': ['a > 0', 'b > 0']}, eq, [{'name': 'VarSubsOfEquation', 'subst': sub}], 'eq-varsubst'
    if r < 0.85:
        eq, t = rng.choice([('(INT x:[0,1]. a * x) + b = a / 2 + b', 'INT x:[0,1]. a * x'), ('2 * (INT x:[0,1]. exp(x)) - 1 = 2 * exp(1) - 3', 'INT x:[0,1]. exp(x)'),
                            ('a * (INT x:[0,pi]. sin(x)) = 2 * a', 'INT x:[0,pi]. sin(x)'), ('(INT x:[0,1]. x) / a = 1 / (2 * a)', 'INT x:[0,1]. x'),
                            ('b - (INT x:[0,1]. x ^ 2) = b - 1/3', 'INT x:[0,1]. x ^ 2')])
        return {'conds': ['a > 0']}, eq, [{'name': 'SolveEquation', 'solve_for': sh(t)}], 'eq-solve'
    lhs = rng.choice(['INT x:[0,pi]. exp(x) * sin(x)', 'INT x:[0,1]. exp(x) * cos(x)'])
    e = {'INT x:[0,pi]. exp(x) * sin(x)': 'exp(pi) + 1 - (INT x:[0,pi]. exp(x) * sin(x))',
         'INT x:[0,1]. exp(x) * cos(x)': 'exp(1) * sin(1) + exp(1) * cos(1) - 1 - (INT x:[0,1]. exp(x) * cos(x))'}[lhs]
    return {'conds': []}, e, [{'name': 'IntegrateByEquation', 'lhs': sh(lhs)}], 'by-equation'


def sc_defs(rng):
    r = rng.random()
    if r < 0.35:
        e = rng.choice(['f(2) + 1', 'f(a) * 2', 'f(1/2)', 'INT t:[1,2]. f(t)'])
        return {'conds': ['a > 0'], 'defs': ['f(t) = INT x:[0,1]. exp(-t * x)']}, e, \
            [{'name': 'OnSubterm', 'rule': {'name': 'ExpandDefinition', 'func_name': 'f'}}, {'name': 'FullSimplify'}], 'def-expand'
    if r < 0.55:
        e = rng.choice(['INT x:[0,1]. exp(-3 * x)', '2 * (INT x:[0,1]. exp(-a * x))', 'INT x:[0,1]. exp(-(a + 1) * x)'])
        return {'conds': ['a > 0'], 'defs': ['f(t) = INT x:[0,1]. exp(-t * x)']}, e, \
            [{'name': 'OnSubterm', 'rule': {'name': 'FoldDefinition', 'func_name': 'f'}}], 'def-fold'
    if r < 0.8:
        e = rng.choice(['Gamma(3)', 'Gamma(a + 1)', 'B(2, 3)', 'B(a, 2)', 'Gamma(1/2) ^ 2', 'sinh(x) + cosh(x)', 'cosh(x) ^ 2 - sinh(x) ^ 2'])
        fn = 'Gamma' if 'Gamma' in e else ('B' if 'B(' in e else rng.choice(['sinh', 'cosh']))
        return {'book': 'interesting', 'conds': ['a > 0']}, e, \
            [{'name': 'OnSubterm', 'rule': {'name': 'ExpandDefinition', 'func_name': fn}}, {'name': 'FullSimplify'}], 'def-book'
    e = rng.choice(['INT x:[0,oo]. exp(-x) * x ^ (5 - 1)', 'INT x:[0,1]. x ^ (3 - 1) * (1 - x) ^ (2 - 1)', 'INT x:[0,oo]. exp(-x) * x ^ (a - 1)'])
    fn = 'B' if '(1 - x)' in e else 'Gamma'
    return {'book': 'interesting', 'conds': ['a > 0']}, e, [{'name': 'FoldDefinition', 'func_name': fn}], 'def-book-fold'


def sc_lemma(rng):
    r = rng.random()
    if r < 0.5:
        lemma = rng.choice(['(INT x:[0,1]. x ^ a) = 1 / (a + 1)', '(INT x:[0,oo]. exp(-a * x)) = 1 / a', '(INT x:[0,pi]. sin(a * x)) = (1 - cos(a * pi)) / a'])
        e = {'(INT x:[0,1]. x ^ a) = 1 / (a + 1)': ['INT x:[0,1]. x ^ 3', 'INT x:[0,1]. x ^ b', 'INT x:[0,1]. x ^ (-2)', 'INT x:[0,1]. x ^ (1/2)'],
             '(INT x:[0,oo]. exp(-a * x)) = 1 / a': ['INT x:[0,oo]. exp(-2 * x)', 'INT x:[0,oo]. exp(-b * x)', 'INT x:[0,oo]. exp(-(-1) * x)'],
             '(INT x:[0,pi]. sin(a * x)) = (1 - cos(a * pi)) / a': ['INT x:[0,pi]. sin(2 * x)', 'INT x:[0,pi]. sin(b * x)']}[lemma]
        return {'conds': ['b > 0'], 'lemmas': [lemma]}, rng.choice(e), [{'name': 'ApplyEquation', 'eq': sh(lemma)}, {'name': 'FullSimplify'}], 'lemma'
    if r < 0.75:
        hyp = '(INT x:[0,1]. x ^ n) = 1 / (n + 1)'
        return {'conds': ['n >= 0'], 'hyps': [hyp]}, rng.choice(['INT x:[0,1]. x ^ n', '2 * (INT x:[0,1]. x ^ n)']), \
            [{'name': 'OnSubterm', 'rule': {'name': 'ApplyInductHyp'}}], 'induct-hyp'
    e = rng.choice(['sin(pi / 6) + cos(pi / 3)', 'atan(1) * 4', 'asin(1/2) + acos(1/2)', 'tan(pi / 4) - cot(pi / 4)', 'sec(pi / 3) * csc(pi / 6)',
                    'INT x:[0,1]. D x. x ^ 2 * exp(x)', 'abs(x) + abs(-x)', 'cos(pi - x) + sin(pi / 2 - x)', 'sin(2 * atan(z))', 'cos(2 * atan(z))',
                    'acot(1) + asec(2) + acsc(2)', 'INT x:[1,2]. D x. log(x) * x'])
    conds = rng.choice([['x >= 0'], ['x <= 0'], ['z > 0', 'z < 1'], []])
    return {'conds': list(conds)}, e, [{'name': 'FullSimplify'}], 'tables-etc'


MISC = [('INT x:[0,1]. D x. x ^ 2 * exp(x)', [], ['CommonIntegral', 'FullSimplify']), ('INT x:[1,2]. D x. log(x) * x', [], ['CommonIntegral']),
        ('INT x:[0,pi]. D x. sin(x) ^ 2 + x', [], ['CommonIntegral', 'FullSimplify']),
        ('SUM(n, 0, oo, (-1) ^ (2 * n) / 2 ^ n)', [], ['SummationSimplify', 'FullSimplify']), ('SUM(n, 0, 4, (-1) ^ (2 * n) * n)', [], ['SummationSimplify']),
        ('SUM(n, 0, oo, (-1) ^ (2 * n) * x ^ n / factorial(n))', [], ['SummationSimplify']),
        ('SUM(n, 0, oo, 1 / 2 ^ n) + SUM(k, 0, oo, 1 / 3 ^ k)', [], ['MergeSummation']), ('SUM(n, 0, 5, n ^ 2) - SUM(k, 0, 5, k)', [], ['MergeSummation']),
        ('SUM(n, 0, oo, x ^ n / factorial(n)) + SUM(k, 0, oo, (-x) ^ k / factorial(k))', [], ['MergeSummation']),
        ('sin(pi / 6)', [], ['FunctionTable']), ('atan(1)', [], ['FunctionTable']), ('acos(1/2)', [], ['FunctionTable']), ('cot(pi / 3)', [], ['FunctionTable']),
        ('asec(2)', [], ['FunctionTable']), ('acsc(-2)', [], ['FunctionTable']), ('asin(-(sqrt(3) / 2))', [], ['FunctionTable']), ('csc(pi / 4)', [], ['FunctionTable']),
        ('abs(x)', ['x >= 0'], ['SimplifyIdentity']), ('abs(x)', ['x <= 0'], ['SimplifyIdentity']), ('abs(x - 1)', ['x > 1'], ['SimplifyIdentity']),
        ('abs(x)', ['x > -1'], ['SimplifyIdentity']), ('cos(pi - x)', [], ['SimplifyIdentity']), ('sin(2 * atan(z))', ['z > 0', 'z < 1'], ['SimplifyIdentity']),
        ('LIM {x -> 0}. (x + 1) / (x + 2)', [], ['LHopital', 'FullSimplify']), ('LIM {x -> 0}. sin(x) / x', [], ['LHopital', 'FullSimplify']),
        ('LIM {x -> oo}. (2 * x + 1) / (x + 3)', [], ['LHopital', 'FullSimplify']), ('LIM {x -> 1}. (x ^ 2 + 1) / (x + 2)', [], ['LHopital', 'FullSimplify']),
        ('LIM {x -> 0}. (exp(x) - 1) / sin(x)', [], ['LHopital', 'FullSimplify']), ('2 * (LIM {x -> oo}. x / (x + 1))', [], ['LHopital']),
        ('INT x:[0,1]. SUM(n, 0, oo, x ^ n / factorial(n))', [], ['IntSumExchange', 'FullSimplify']),
        ('INT x:[0,1/2]. SUM(n, 0, oo, (-1) ^ n * x ^ n)', [], ['IntSumExchange']),
        ('INT x:[0,1]. D x. x ^ 2', [], ['DerivIntExchange']), ('INT u. D a. sin(a * u)', [], ['DerivIntExchange'])]


def sc_misc(rng):
    e, conds, names = rng.choice(MISC)
    return {'conds': list(conds)}, e, [{'name': n} for n in names], 'misc'


SCENARIOS = [sc_misc, sc_linearity, sc_fullsimplify, sc_even_root, sc_limit_sides, sc_identity_eval, sc_substitution, sc_substitution_targeted, sc_subst_inverse, sc_parts,
             sc_parts_indef, sc_split, sc_expand, sc_elim_inf, sc_indefinite, sc_equation, sc_algebra, sc_power, sc_identity, sc_limit,
             sc_series, sc_deriv, sc_eq_rules, sc_defs, sc_lemma, sc_substitution, sc_substitution_targeted, sc_algebra, sc_equation]


def run_chain(vctx, mon, ctxspec, e_sh_json, chain, tag, collect=None, identity=None):
    """execute the chain of rule descriptors at top level; returns number of accepted steps"""
    from vf.props.c19 import mk_rule
    ctx = make_ctx(ctxspec)
    cur = O.from_shadow(O.from_json(e_sh_json))
    n = 0
    for pos, rd in enumerate(chain):
        mon.driver = {'kind': 'gen', 'ctx': ctxspec, 'e': e_sh_json, 'chain': chain, 'pos': pos, 'tag': tag,
                      'case': h64(json.dumps([ctxspec, e_sh_json], sort_keys=True))}
        if identity is not None:
            mon.driver['identity'] = identity
        mon.last = None
        try:
            with quiet():
                rule = mk_rule(rd)
        except Exception:
            vctx.count('gen_rule_construction_failed')
            break
        before_sh = O.to_shadow(cur)
        try:
            with quiet():
                res = rule.eval(cur, ctx)
        except Exception as ex:
            vctx.count('gen_rejected:' + rd['name'])
            break
        vctx.count('gen_accepted:' + rd['name'])
        last = mon.last or {}
        nontriv = last.get('verdict') not in (None, 'identity', 'raised')
        vctx.case(('gen', rd['name'], json.dumps(rd, sort_keys=True, default=str), before_sh, tuple(ctxspec.get('conds', []))),
                  nontrivial=nontriv,
                  sample=('%s: %s  --[%s]-->  %s : %s' % (tag, O.show(before_sh)[:90], rd['name'], str(res)[:90], last.get('verdict')))
                  if vctx.evaluations % 97 == 0 else None)
        vctx.count('gen_cases')
        vctx.count('gen_verdict:' + str(last.get('verdict')))
        if collect is not None:
            collect.append(res)
        # substitutions performed so far are part of the context of later steps (as in Calculation.perform_rule)
        try:
            ctx.extend_substs(rule.get_substs())
        except Exception:
            pass
        cur = res
        n += 1
    return n


def run_generated(vctx, mon, count):
    rng = vctx.rng
    done = 0
    k = rng.randrange(len(SCENARIOS))
    guard = 0
    while done < count and guard < count * 6:
        guard += 1
        sc = SCENARIOS[k % len(SCENARIOS)]
        k += 1
        try:
            with quiet():
                r = sc(rng)
        except Exception as ex:
            vctx.count('gen_scenario_error:' + sc.__name__)
            continue
        if r is None:
            continue
        ctxspec, e_str, chain, tag = r
        try:
            e_json = O.jsonable(O.to_shadow(P(e_str)))
        except Exception:
            vctx.count('gen_parse_error:' + sc.__name__)
            continue
        vctx.count('gen_scenario:' + sc.__name__)
        done += run_chain(vctx, mon, ctxspec, e_json, chain, tag)


def replay_driver(vctx, mon, drv, w):
    kind = drv.get('kind')
    if kind == 'gen':
        if drv.get('identity'):
            O.ENABLE_OSC = True
        run_chain(vctx, mon, drv['ctx'], drv['e'], drv['chain'][:drv['pos'] + 1], drv.get('tag', 'replay'),
                  identity=drv.get('identity'))
    elif kind == 'aux':
        aux_one(vctx, mon, drv['check'], drv['ctx'], drv['e'], drv.get('extra'))
    else:
        vctx.note('replay: unknown driver %r' % (drv,))


# ------------------------------------------------------------------------------------------ identity side conditions
NEG_REL = {'>': '<', '>=': '<', '<': '>', '<=': '>', '!=': '=', '=': '!='}


def negate_cond(c):
    """a condition (string) that contradicts c with a margin: x > 0 -> x < 0, x <= 1 -> x > 1, n != -1 -> n = -1"""
    e = P(c)
    if not (e.is_op() and len(e.args) == 2 and e.op in NEG_REL):
        return None
    return '%s %s %s' % (_par(e.args[0]), NEG_REL[e.op], _par(e.args[1]))


def _par(x):
    s = str(x)
    return s if (x.is_var() or (x.is_const() and x.val >= 0) or x.is_fun()) else '(%s)' % s


def conditioned_identities(book):
    """every item of the book file (not its imports) that carries side conditions, read as data"""
    import os
    from vf.core import REPO
    with open(os.path.join(REPO, 'integral', 'examples', book + '.json'), encoding='utf-8') as f:
        d = json.load(f)
    out = []
    for it in d.get('content', []):
        if it.get('conds') and it.get('expr') and it.get('type') in ('axiom', 'problem'):
            out.append(it)
    return out


def identity_rules(it):
    """(start expression string, rule chain, tag) for every rule that can apply the identity"""
    e = P(it['expr'])
    if not e.is_equals():
        return []
    lhs, rhs = e.lhs, e.rhs
    out = []
    if lhs.is_integral():
        out.append((str(lhs), [{'name': 'DefiniteIntegralIdentity'}], 'definite'))
    elif lhs.is_indefinite_integral():
        out.append((str(lhs), [{'name': 'IndefiniteIntegralIdentity'}], 'indefinite'))
        out.append(('INT %s:[1,2]. %s' % (lhs.var, lhs.body), [{'name': 'DefiniteIntegralIdentity'}], 'indefinite-as-definite'))
    elif rhs.is_summation() and not lhs.is_summation():
        out.append((str(lhs), [{'name': 'SeriesExpansionIdentity', 'old_expr': None, 'index_var': rhs.index_var}], 'series-expansion'))
    elif lhs.is_summation() and not rhs.is_summation():
        out.append((str(lhs), [{'name': 'SeriesEvaluationIdentity'}], 'series-evaluation'))
    if 'simplify' in (it.get('attributes') or []):
        out.append((str(lhs), [{'name': 'SimplifyIdentity'}], 'simplify'))
        out.append(('(%s) + 1' % lhs, [{'name': 'FullSimplify'}], 'simplify-full'))
    if it.get('category') and not (lhs.is_integral() or lhs.is_indefinite_integral() or rhs.is_summation() or lhs.is_summation()):
        out.append((str(lhs), [{'name': 'ApplyIdentity', 'source': O.jsonable(O.to_shadow(lhs)),
                                'target': O.jsonable(O.to_shadow(rhs))}], 'other-identity'))
    return out


def identity_contexts(conds):
    """(kind, context conditions, dropped, negated): all / every proper subset / negation of exactly one condition"""
    import itertools
    k = len(conds)
    out = [('all', list(conds), [], None)]
    for r in range(k - 1, -1, -1):
        for keep in itertools.combinations(range(k), r):
            out.append(('subset', [conds[i] for i in keep], [conds[i] for i in range(k) if i not in keep], None))
    for i in range(k):
        n = negate_cond(conds[i])
        if n is not None:
            out.append(('negated', [n if j == i else conds[j] for j in range(k)], [], conds[i]))
    return out


def run_idcond(vctx, mon, books, osc_books=(), big=(3000000, 600000), part=None):
    """drive every rule that applies an identity with side conditions, in contexts that establish all / only some /
    the negation of one of the conditions; parameter values are drawn from the CONTEXT, so a rewrite performed
    without the identity's condition is judged where the condition is false"""
    std = (mon.budget, mon.per_eval)
    for book in books:
        try:
            items = conditioned_identities(book)
        except Exception as ex:
            vctx.note('idcond: cannot read book %s: %s' % (book, ex))
            continue
        for idx, it in enumerate(items):
            if part is not None and idx % part[1] != part[0]:
                continue
            try:
                with quiet():
                    variants = identity_rules(it)
            except Exception:
                vctx.count('idcond_identity_not_parsed')
                continue
            if not variants:
                vctx.count('idcond_identity_without_rule')
                continue
            conds = list(it['conds'])
            vctx.count('idcond_identities')
            if len(conds) >= 2:
                vctx.count('idcond_multi_condition_identities')
            for e_str, chain, tag in variants:
                try:
                    e_json = O.jsonable(O.to_shadow(P(e_str)))
                except Exception:
                    vctx.count('idcond_parse_error')
                    continue
                for kind, cc, dropped, negated in identity_contexts(conds):
                    O.ENABLE_OSC = book in osc_books
                    mon.budget, mon.per_eval = big if book in osc_books else std
                    ident = {'book': book, 'expr': it['expr'], 'conds': conds, 'context_kind': kind, 'dropped': dropped,
                             'negated': negated}
                    before = dict(vctx.counters)
                    try:
                        n = run_chain(vctx, mon, {'book': book, 'conds': cc}, e_json, chain, 'idcond/%s/%s' % (tag, kind),
                                      identity=ident)
                    finally:
                        O.ENABLE_OSC = False
                        mon.budget, mon.per_eval = std
                    vctx.count('idcond_cases')
                    vctx.count('idcond_context:' + kind)
                    vctx.count('idcond_rule:' + chain[0]['name'])
                    last = mon.last or {}
                    vd = last.get('verdict') if n else 'raised'
                    if vd in (None, 'identity', 'raised'):
                        vctx.count('idcond_not_rewritten:' + kind)
                    else:
                        vctx.count('idcond_rewritten:' + kind)
                        vctx.count('idcond_rewritten_verdict:%s:%s' % (kind, vd))


def identity_conds_false_at(draws, cond_strs, defs=None):
    """identity conditions that are numerically false at one of the violating parameter draws"""
    from mpmath import mp, mpf
    out = []
    with mp.workdps(30):
        ev = O.Ev(defs or {}, 20000)
        for d in draws:
            if d.get('status') != 'V' or not d.get('env'):
                continue
            env = {k: mpf(v) for k, v in d['env'].items()}
            for c in cond_strs:
                try:
                    csh = O.to_shadow(P(c))
                    if set(O.free_vars(csh)) <= set(env) and not ev.holds(csh, env) and c not in out:
                        out.append(c)
                except Exception:
                    pass
    return out


# ------------------------------------------------------------------------------------------ auxiliary checks
def aux_violation(vctx, mech, desc, check, ctxspec, e_json, extra=None, more=None):
    w = {'driver': {'kind': 'aux', 'check': check, 'ctx': ctxspec, 'e': e_json, 'extra': extra}, 'input_str': O.show(O.from_json(e_json))}
    if more:
        w.update(more)
    vctx.violation(mech, desc, w)


def aux_one(vctx, mon, check, ctxspec, e_json, extra=None):
    """one direct check; monitors of Rule.eval stay installed but these functions are not rules"""
    from mpmath import mp, mpf
    from integral import poly, rules as R
    rng = vctx.rng
    ctx = make_ctx(ctxspec)
    conds_obj = ctx.get_conds()
    conds = [O.to_shadow(c) for c in conds_obj.data]
    e_sh = O.from_json(e_json)
    e = O.from_shadow(e_sh)
    if check == 'normalize':
        try:
            with quiet():
                n1 = poly.normalize(e, conds_obj)
        except Exception:
            vctx.count('aux_normalize_rejected')
            return
        vctx.count('aux_normalize_checked')
        n1_sh = O.to_shadow(n1)
        try:
            with quiet():
                n2 = poly.normalize(n1, conds_obj)
            n2_sh = O.to_shadow(n2)
        except Exception as ex:
            n2_sh = None
            vctx.count('aux_normalize_second_pass_raised')
        if n2_sh is not None:
            if n2_sh == n1_sh:
                vctx.count('aux_normalize_idempotent')
            else:
                vctx.count('aux_normalize_not_idempotent')
                # idempotence is claimed by the property: a structural difference is a definite witness
                aux_violation(vctx, 'normalize:not-idempotent', 'normalize(%s) = %s but normalizing again gives %s (conds %s)' % (
                    O.show(e_sh)[:150], str(n1)[:150], str(n2)[:150], ctxspec.get('conds')), check, ctxspec, e_json,
                    more={'n1': str(n1), 'n2': str(n2)})
        if n1_sh != e_sh:
            res = O.judge(e_sh, n1_sh, conds, {}, {}, rng, budget=mon.budget, max_draws=mon.max_draws, per_eval=mon.per_eval)
            vctx.count('aux_normalize_value:' + res['verdict'])
            if res['verdict'] == 'violated':
                key = 'normalize:' + (res.get('what') or 'value-changed')
                cul = normalize_culprit(e_sh, conds_obj, conds, rng, mon.budget, mon.per_eval)
                detail = ''
                if cul is not None:
                    key = 'normalize:%s@%s' % (cul[1] or 'value-changed', cul[0])
                    detail = ' [smallest failing subterm: %s -> %s]' % (O.show(cul[2])[:80], O.show(cul[3])[:80])
                aux_violation(vctx, key,
                              'poly.normalize(%s) under %s -> %s%s ; %s' % (O.show(e_sh)[:150], ctxspec.get('conds'), str(n1)[:150], detail,
                                                                           json.dumps(res['draws'][:2], default=str)[:300]),
                              check, ctxspec, e_json, more={'output_str': str(n1), 'oracle': res})
        if n1_sh != e_sh:
            # informational only (not part of the property): does normalisation give a value at a special point
            # (0, +-1) at which the input divides by zero?  e.g. x / x -> 1.  Counted, never a verdict.
            try:
                with mp.workdps(30):
                    ev = O.Ev({}, 20000)
                    fvs = O.free_vars(e_sh)
                    for trial in range(6):
                        env = {v: mpf(rng.choice([0, 0, 1, -1])) for v in fvs}
                        try:
                            if not all(ev.holds(c, env) for c in conds if set(O.free_vars(c)) <= set(env)):
                                continue
                        except O.NotEvaluable:
                            continue
                        try:
                            ev.n = 0
                            ev.ev(e_sh, env)
                        except O.DomainErr as ex:
                            if 'zero' in ex.reason:
                                try:
                                    ev.n = 0
                                    ev.ev(n1_sh, env)
                                    vctx.count('aux_normalize_domain_extended_at_special_point')
                                    break
                                except O.NotEvaluable:
                                    pass
                        except O.NotEvaluable:
                            pass
            except Exception:
                pass
        vctx.case(('aux', check, e_sh, tuple(ctxspec.get('conds', []))), nontrivial=n1_sh != e_sh)
    elif check == 'deriv':
        var = extra or 'x'
        try:
            with quiet():
                d = R.deriv(var, e, ctx)
            d_sh = O.to_shadow(d)
        except Exception:
            vctx.count('aux_deriv_rejected')
            return
        vctx.count('aux_deriv_checked')
        res = O.judge(('D', var, e_sh), d_sh, conds, {}, {}, rng, budget=mon.budget, max_draws=mon.max_draws, per_eval=mon.per_eval)
        vctx.count('aux_deriv_value:' + res['verdict'])
        if res['verdict'] == 'violated':
            key = 'deriv:' + (res.get('what') or 'value-changed')
            head = deriv_culprit(e_sh, var, ctx, conds, rng, mon.budget, mon.per_eval)
            if head:
                key = 'deriv:wrong-derivative-of-' + head
            inv = {'atan': 'tan', 'acot': 'cot', 'asin': 'sin', 'acos': 'cos'}
            if any(u[0] == 'f' and u[1] in inv and u[2] and u[2][0][0] == 'f' and u[2][0][1] == inv[u[1]] for u in O.subterms(e_sh)):
                # the derivative is normalised on the way: the recorded 'inverse function of the function collapsed
                # outside the principal range' finding, seen through deriv
                key = 'deriv:inverse-trig-of-trig-collapsed-outside-principal-range'
            aux_violation(vctx, key, 'rules.deriv(%s, %s) = %s disagrees with the numerical derivative; %s' % (
                var, O.show(e_sh)[:150], str(d)[:150], json.dumps(res['draws'][:2], default=str)[:300]), check, ctxspec, e_json, extra,
                more={'output_str': str(d), 'oracle': res})
        vctx.case(('aux', check, e_sh), nontrivial=True)
    elif check == 'bounds':
        try:
            with quiet():
                iv = conds_obj.get_bounds_for_expr(e)
            if iv is None:
                vctx.count('aux_bounds_none')
                return
            lo_sh, hi_sh = O.to_shadow(iv.start), O.to_shadow(iv.end)
            lopen, ropen = bool(iv.left_open), bool(iv.right_open)
        except Exception:
            vctx.count('aux_bounds_rejected')
            return
        vctx.count('aux_bounds_checked')
        if lo_sh == ('inf', -1) and hi_sh == ('inf', 1):
            vctx.count('aux_bounds_trivial')
        fvs = O.free_vars(e_sh)
        nsamp, nout, first = 0, 0, None
        with mp.workdps(30):
            ev = O.Ev({}, 50000)
            try:
                lo = ev.bound_value(lo_sh, {})
                hi = ev.bound_value(hi_sh, {})
            except O.NotEvaluable as ex:
                vctx.count('aux_bounds_endpoints_not_evaluable')
                return
            for i in range(200):
                env = O.draw_env(fvs, conds, rng, {}, (), tries=10, special=(i % 4 == 0))
                if env is None:
                    continue
                try:
                    ev.n = 0
                    val = ev.ev(e_sh, env)
                except O.NotEvaluable:
                    continue
                nsamp += 1
                tol = mpf('1e-12') * max(1, abs(val))
                bad = (val < lo - tol) or (val > hi + tol) or (lopen and val == lo and False)
                if bad:
                    nout += 1
                    if first is None:
                        first = ({k: mp.nstr(v, 12) for k, v in env.items()}, mp.nstr(val, 15))
        vctx.count('aux_bounds_samples', nsamp)
        if nout:
            vctx.count('aux_bounds_escaped')
            key = 'interval:value-outside-bounds'
            if not extra:
                subs = sorted({t for t in O.subterms(e_sh) if t[0] in ('f', 'op', 'neg') and t != e_sh}, key=O.size)
                for t in subs[:25] + [e_sh]:
                    if sub_bounds_escape(t, ctxspec, conds, conds_obj, rng):
                        key = 'interval:wrong-bounds-for-' + (t[1] if t[0] in ('f', 'op') else t[0])
                        if t[0] == 'op' and t[1] == '^':
                            # which power, over what kind of base: the recorded finding is about specific exponents
                            key += ':' + power_class(t, conds, rng)
                        break
            aux_violation(vctx, key, 'get_bounds_for_expr(%s) under %s = %s%s, %s%s but value %s at %s (%d of %d samples outside)' % (
                O.show(e_sh)[:150], ctxspec.get('conds'), '(' if lopen else '[', O.show(lo_sh), O.show(hi_sh), ')' if ropen else ']',
                first[1], first[0], nout, nsamp), check, ctxspec, e_json, more={'bounds': [O.show(lo_sh), O.show(hi_sh)], 'sample': first})
        elif nsamp:
            vctx.count('aux_bounds_enclosed')
        vctx.case(('aux', check, e_sh, tuple(ctxspec.get('conds', []))), nontrivial=nsamp > 0)
    elif check == 'printparse':
        from integral import parser
        vctx.count('aux_printparse_checked')
        try:
            s = str(e)
        except Exception as ex:
            vctx.count('aux_printparse_unprintable')
            return
        try:
            with quiet():
                e2 = parser.parse_expr(s)
        except Exception as ex:
            vctx.count('aux_printparse_unparsable')
            aux_violation(vctx, 'printparse:printed-form-does-not-parse', 'str(e) = %r does not parse (%s); e = %s' % (
                s[:200], type(ex).__name__, O.show(e_sh)[:200]), check, ctxspec, e_json)
            return
        same = False
        try:
            same = (e2 == e)
        except Exception:
            pass
        if same:
            vctx.count('aux_printparse_same')
        else:
            e2_sh = O.to_shadow(e2)
            res = O.judge(e_sh, e2_sh, conds, {}, {}, rng, budget=mon.budget, max_draws=3, per_eval=mon.per_eval)
            vctx.count('aux_printparse_differs:' + res['verdict'])
            key = 'printparse:reparsed-value-differs' if res['verdict'] == 'violated' else 'printparse:reparsed-structure-differs'
            aux_violation(vctx, key, 'parse_expr(str(e)) != e: e = %s prints as %r which parses as %s (%s)' % (
                O.show(e_sh)[:160], s[:160], O.show(e2_sh)[:160], res['verdict']), check, ctxspec, e_json, more={'printed': s})
        vctx.case(('aux', check, e_sh), nontrivial=True)


def deriv_culprit(e_sh, var, ctx, conds, rng, budget, per_eval):
    """head of the smallest subterm whose symbolic derivative is already wrong ('cot', 'acot', '^', ...), or None"""
    from integral import rules as R
    subs = sorted({t for t in O.subterms(e_sh) if t[0] in ('f', 'op', 'neg', 'I', 'S', 'L')}, key=O.size)
    for t in subs[:40]:
        try:
            with quiet():
                dt = R.deriv(var, O.from_shadow(t), ctx)
            r2 = O.judge(('D', var, t), O.to_shadow(dt), conds, {}, {}, rng, budget=budget, max_draws=6, per_eval=per_eval, min_draws=4)
        except Exception:
            continue
        if r2['verdict'] == 'violated':
            return t[1] if t[0] in ('f', 'op') else t[0]
    return None


def normalize_culprit(e_sh, conds_obj, conds, rng, budget, per_eval):
    """head of the smallest subterm whose normalisation already changes the value ('^', 'atan', ...), or None"""
    from integral import poly
    subs = sorted({t for t in O.subterms(e_sh) if t[0] in ('f', 'op', 'neg')}, key=O.size)
    for t in subs[:40]:
        try:
            with quiet():
                nt = poly.normalize(O.from_shadow(t), conds_obj)
            nt_sh = O.to_shadow(nt)
            if nt_sh == t:
                continue
            r2 = O.judge(t, nt_sh, conds, {}, {}, rng, budget=budget, max_draws=10, per_eval=per_eval, min_draws=8)
        except Exception:
            continue
        if r2['verdict'] == 'violated':
            head = t[1] if t[0] in ('f', 'op') else t[0]
            # the recorded root cause 'inverse function of the function collapsed outside the principal range'
            # sometimes fires only inside a larger term (atan(tan x) alone is left as it is): name it by the inner
            # composition, not by whatever operator happens to sit above it
            inv = {'atan': 'tan', 'acot': 'cot', 'asin': 'sin', 'acos': 'cos'}
            for u in sorted({u for u in O.subterms(t) if u[0] == 'f' and u[1] in inv}, key=O.size):
                if u[2] and u[2][0][0] == 'f' and u[2][0][1] == inv[u[1]] and not any(
                        w[0] == 'f' and w[1] in inv and w[2] and w[2][0][0] == 'f' and w[2][0][1] == inv[w[1]] for w in O.subterms(nt_sh)):
                    head = u[1]
                    break
            return head, r2.get('what'), t, nt_sh
    return None


def power_class(t, conds, rng):
    """'<exponent>:<sign class of the base over the admissible draws>' for a power term (op ^ base exponent)"""
    from mpmath import mp
    base, expo = t[2], t[3]
    ex = O.show(expo).replace(' ', '') if not O.free_vars(expo) else 'variable'
    if len(ex) > 8:
        ex = 'compound'
    lo = hi = None
    with mp.workdps(30):
        ev = O.Ev({}, 50000)
        fvs = O.free_vars(base)
        for i in range(60):
            env = O.draw_env(fvs, conds, rng, {}, (), tries=10, special=(i % 4 == 0)) if fvs else {}
            if env is None:
                continue
            try:
                ev.n = 0
                v = ev.ev(base, env)
            except O.NotEvaluable:
                continue
            lo = v if lo is None or v < lo else lo
            hi = v if hi is None or v > hi else hi
            if not fvs:
                break
    if lo is None:
        cls = 'base-not-evaluable'
    elif lo >= 0:
        cls = 'base-nonnegative'
    elif hi <= 0:
        cls = 'base-nonpositive'
    else:
        cls = 'base-straddles-zero:%s' % ('left-end-farther' if -lo > hi else 'right-end-farther-or-equal')
    return ex + ':' + cls


def sub_bounds_escape(t, ctxspec, conds, conds_obj, rng):
    """does some sampled value of subterm t escape the interval computed for t itself?"""
    from mpmath import mp, mpf
    try:
        with quiet():
            iv = conds_obj.get_bounds_for_expr(O.from_shadow(t))
        lo_sh, hi_sh = O.to_shadow(iv.start), O.to_shadow(iv.end)
    except Exception:
        return False
    with mp.workdps(30):
        ev = O.Ev({}, 50000)
        try:
            lo, hi = ev.bound_value(lo_sh, {}), ev.bound_value(hi_sh, {})
        except O.NotEvaluable:
            return False
        fvs = O.free_vars(t)
        for i in range(80):
            env = O.draw_env(fvs, conds, rng, {}, (), tries=10, special=(i % 4 == 0))
            if env is None:
                continue
            try:
                ev.n = 0
                val = ev.ev(t, env)
            except O.NotEvaluable:
                continue
            tol = mpf('1e-12') * max(1, abs(val))
            if val < lo - tol or val > hi + tol:
                return True
    return False


def bounds_expr(rng, depth=2):
    if depth <= 0 or rng.random() < 0.2:
        return rng.choice(['x', 'y', 'x', '2', '3', '1/2', '-1', 'pi'])
    r = rng.random()
    if r < 0.55:
        return '(%s %s %s)' % (bounds_expr(rng, depth - 1), rng.choice(['+', '-', '*', '*', '/']), bounds_expr(rng, depth - 1))
    if r < 0.75:
        return '(%s) ^ %s' % (bounds_expr(rng, depth - 1), rng.choice(['2', '3', '4', '1/2', '-1', '-2', '1/3', '3/2', 'y']))
    if r < 0.8:
        return '-(%s)' % bounds_expr(rng, depth - 1)
    return '%s(%s)' % (rng.choice(['sqrt', 'exp', 'log', 'sin', 'cos', 'abs']), bounds_expr(rng, depth - 1))


BOUND_CONDS = [['x > 0'], ['x > 0', 'x < 1'], ['x > -2', 'x < 1'], ['x < 0'], ['x >= 1', 'y > 0'], ['x > -1', 'x < 1', 'y > 2'],
               ['x > 0', 'x < pi'], ['x > -pi / 2', 'x < pi / 2'], ['x >= 0', 'x <= 2', 'y >= -1', 'y <= 1'], ['x < -1', 'y < 0'],
               ['x > 2', 'y > 1', 'y < 3'], ['x > -3', 'x < -1', 'y > 0', 'y < 1'], ['abs(x) < 1', 'y > 0'], ['x > 1/2', 'x < 4']]


def run_aux(vctx, mon, count):
    rng = vctx.rng
    from integral import parser
    # expressions produced by rules (what is printed into files) for the print/parse check
    produced = []
    for i in range(max(6, count // 12)):
        sc = rng.choice(SCENARIOS)
        try:
            with quiet():
                r = sc(rng)
            if r is None:
                continue
            ctxspec, e_str, chain, tag = r
            e_json = O.jsonable(O.to_shadow(P(e_str)))
            produced.append((ctxspec, P(e_str)))
            col = []
            run_chain(vctx, mon, ctxspec, e_json, chain, tag, collect=col)
            produced += [(ctxspec, x) for x in col]
        except Exception:
            vctx.count('aux_producer_error')
    for i in range(count):
        which = ('normalize', 'deriv', 'bounds', 'printparse')[i % 4]
        try:
            if which == 'normalize':
                e = alg_expr(rng, rng.choice([2, 3, 3, 4]))
                spec = {'conds': list(rng.choice(COND_SETS))}
                if rng.random() < 0.25:
                    b, lo, hi, c, _ = family(rng)
                    e, spec = integral_str(b, lo, hi), {'conds': c}
                aux_one(vctx, mon, 'normalize', spec, O.jsonable(O.to_shadow(P(e))))
            elif which == 'deriv':
                e = rng.choice(DERIVS) if rng.random() < 0.5 else alg_expr(rng, rng.choice([2, 3]))
                spec = {'conds': list(rng.choice([[], ['x > 0'], ['x > 0', 'a > 0'], ['x > 0', 'y > 0'], ['a > 0']]))}
                aux_one(vctx, mon, 'deriv', spec, O.jsonable(O.to_shadow(P(e))), 'x')
            elif which == 'bounds':
                e = bounds_expr(rng, rng.choice([1, 2, 2, 3]))
                aux_one(vctx, mon, 'bounds', {'conds': list(rng.choice(BOUND_CONDS))}, O.jsonable(O.to_shadow(P(e))))
                # directed interval arithmetic: one operation on a linear image of x, over a range taken from a
                # systematic family (either end may be the one farther from zero, open or closed, touching zero)
                ends = ['-3', '-2', '-1', '-1/2', '0', '1/2', '1', '2', '3']
                ia, ib = sorted(rng.sample(range(len(ends)), 2))
                conds_d = ['x %s %s' % (rng.choice(['>', '>=']), ends[ia]), 'x %s %s' % (rng.choice(['<', '<=']), ends[ib])]
                lin = rng.choice(['x', 'x', 'x + 1', 'x - 1', '2 * x', '-x', 'x / 2', 'x - 1/2'])
                opx = rng.choice(['(%s) ^ 2', '(%s) ^ 2', '(%s) ^ 2', '(%s) ^ 3', '(%s) ^ 4', 'abs(%s)', '(%s) * (%s)', '-((%s) ^ 2)',
                                  '1 - (%s) ^ 2', '(%s) ^ 2 - 4', 'sqrt((%s) ^ 2)', 'exp(%s)', '(%s) * x'])
                e_d = opx % ((lin,) * opx.count('%s'))
                vctx.count('aux_bounds_directed')
                aux_one(vctx, mon, 'bounds', {'conds': conds_d}, O.jsonable(O.to_shadow(P(e_d))))
            else:
                for j in range(6):
                    if produced and rng.random() < 0.7:
                        spec, ex = produced[rng.randrange(len(produced))]
                        aux_one(vctx, mon, 'printparse', spec, O.jsonable(O.to_shadow(ex)))
                    else:
                        ex = P(alg_expr(rng, 3))
                        aux_one(vctx, mon, 'printparse', {'conds': []}, O.jsonable(O.to_shadow(ex)))
        except Exception as ex:
            vctx.count('aux_driver_error:' + which)
            import traceback
            vctx.note('aux driver error: ' + traceback.format_exc()[-400:])
