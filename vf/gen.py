"""Seeded, type-directed generator of well-typed shadow terms over a signature
(DESIGN 2.0).  Works on shadows only; conversion to repo terms happens at the
end through the public constructors (shadow.to_repo_term)."""
from vf import shadow as S

B = S.BOOL


def pv(n):
    return ('pv', n)


def decl(T):
    """declared type (with 'tv' type variables) -> pattern with 'pv' variables"""
    if T[0] in ('tv', 'stv'):
        return ('pv', T[1])
    if T[0] == 'tc':
        return ('tc', T[1], tuple(decl(a) for a in T[2]))
    return T


def pinst(T, inst):
    if T[0] == 'pv':
        return inst[T[1]]
    if T[0] == 'tc':
        return ('tc', T[1], tuple(pinst(a, inst) for a in T[2]))
    return T


def pvars(T, acc=None):
    if acc is None:
        acc = []
    if T[0] == 'pv':
        if T[1] not in acc:
            acc.append(T[1])
    elif T[0] == 'tc':
        for a in T[2]:
            pvars(a, acc)
    return acc


def pmatch(pat, T, inst):
    if pat[0] == 'pv':
        if pat[1] in inst:
            return inst[pat[1]] == T
        inst[pat[1]] = T
        return True
    if pat[0] == 'tc':
        if T[0] != 'tc' or T[1] != pat[1] or len(T[2]) != len(pat[2]):
            return False
        return all(pmatch(p, a, inst) for p, a in zip(pat[2], T[2]))
    return pat == T


def strip_fun(T):
    args = []
    while T[0] == 'tc' and T[1] == 'fun' and len(T[2]) == 2:
        args.append(T[2][0])
        T = T[2][1]
    return args, T


LOGIC_BASE_SIG = [
    ('equals', S.funs(pv('a'), pv('a'), B)), ('implies', S.funs(B, B, B)),
    ('all', S.fun(S.fun(pv('a'), B), B)), ('exists', S.fun(S.fun(pv('a'), B), B)),
    ('exists1', S.fun(S.fun(pv('a'), B), B)),
    ('conj', S.funs(B, B, B)), ('disj', S.funs(B, B, B)), ('neg', S.fun(B, B)),
    ('true', B), ('false', B), ('IF', S.funs(B, pv('a'), pv('a'), pv('a'))),
    ('Some', S.fun(S.fun(pv('a'), B), pv('a'))), ('The', S.fun(S.fun(pv('a'), B), pv('a'))),
]


class TermGen:
    """sig: list of (name, pattern type).  type_pool: list of (weight, shadow type) used for
    fresh type choices.  names: pool of variable names (free, schematic and bound share it
    so that clashes happen)."""

    def __init__(self, rng, sig, type_pool, names=('x', 'y', 'z', 'f', 'p'), p_svar=0.3,
                 p_fresh=0.25, p_redex=0.1, weights=None, overload=None, type_clash=False):
        self.rng, self.sig, self.type_pool, self.names = rng, sig, type_pool, names
        self.p_svar, self.p_fresh, self.p_redex = p_svar, p_fresh, p_redex
        self.ctx = []          # free atoms in scope
        self.type_clash = type_clash
        self.clash_bias = 0.0
        self.bound_names = []
        self.overload = overload or {}   # name -> list of allowed instantiations of its pv (list of dicts)
        self.w = {'atom': 3, 'const': 4, 'app': 2, 'abs': 3, 'redex': 1}
        if weights:
            self.w.update(weights)

    def rand_type(self):
        tot = sum(w for w, _ in self.type_pool)
        r = self.rng.random() * tot
        for w, T in self.type_pool:
            r -= w
            if r <= 0:
                return T
        return self.type_pool[-1][1]

    def fresh_atom(self, T):
        kind = 'svar' if self.rng.random() < self.p_svar else 'var'
        # reuse a name only if (kind,name) is not already bound to another type: the repo's
        # contexts identify variables by name, and so do Inst keys
        for _ in range(6):
            n = self.rng.choice(self.names)
            if self.type_clash or not any(a[0] == kind and a[1] == n and a[2] != T for a in self.ctx):
                a = (kind, n, T)
                if a not in self.ctx:
                    self.ctx.append(a)
                return a
        n = self.rng.choice(self.names) + str(self.rng.randrange(10))
        if any(a[0] == kind and a[1] == n and a[2] != T for a in self.ctx):
            return None
        a = (kind, n, T)
        if a not in self.ctx:
            self.ctx.append(a)
        return a

    def const_options(self, T):
        """constants (with k applied args) whose result type can be T"""
        out = []
        for name, pat in self.sig:
            argTs, res = strip_fun(pat)
            # try every split: apply k args
            for k in range(len(argTs) + 1):
                rpat = S.funs(*(argTs[k:] + [res])) if True else None
                inst = {}
                if pmatch(rpat, T, inst):
                    out.append((name, pat, k, inst))
            if res[0] == 'pv':
                # result is a bare type variable: it may itself be a function type -> more args; skip
                pass
        return out

    def complete_inst(self, name, pat, inst):
        inst = dict(inst)
        allowed = self.overload.get(name)
        if allowed is not None:
            cands = [a for a in allowed if all(inst.get(k, v) == v for k, v in a.items())]
            if not cands:
                return None
            inst.update(self.rng.choice(cands))
        for v in pvars(pat):
            if v not in inst:
                inst[v] = self.rand_type()
        return inst

    def gen(self, T, depth, bd=()):
        rng = self.rng
        leaf = []
        for i, bT in enumerate(bd):
            if bT == T:
                leaf.append(('bound', i))
        atoms = [a for a in self.ctx if a[2] == T]
        if depth <= 0:
            opts = []
            if leaf:
                opts.append('bound')
            if atoms:
                opts.append('atom')
            nullary = [(n, p, k, i) for (n, p, k, i) in self.const_options(T) if k == 0]
            if nullary:
                opts.append('const0')
            if not opts or rng.random() < self.p_fresh:
                a = self.fresh_atom(T)
                if a is not None:
                    return a
            if not opts:
                # last resort: a new uniquely named variable
                a = ('var', 'v%d' % rng.randrange(1000), T)
                self.ctx.append(a)
                return a
            c = rng.choice(opts)
            if c == 'bound':
                return rng.choice(leaf)
            if c == 'atom':
                return rng.choice(atoms)
            n, p, k, i = rng.choice(nullary)
            inst = self.complete_inst(n, p, i)
            if inst is None:
                return self.gen(T, depth, bd) if atoms or leaf else self.fresh_atom(T) or ('var', 'w', T)
            return ('const', n, pinst(p, inst))
        # inner node
        kinds = []
        if leaf or atoms:
            kinds += ['atom'] * self.w['atom']
        copts = [o for o in self.const_options(T)]
        if copts:
            kinds += ['const'] * self.w['const']
        kinds += ['app'] * self.w['app']
        if T[0] == 'tc' and T[1] == 'fun':
            kinds += ['abs'] * self.w['abs']
        if rng.random() < self.p_redex:
            kinds += ['redex'] * (len(kinds) // 2 + 1)
        c = rng.choice(kinds)
        if c == 'atom':
            return self.gen(T, 0, bd)
        if c == 'const':
            n, p, k, i = rng.choice(copts)
            inst = self.complete_inst(n, p, i)
            if inst is None:
                return self.gen(T, depth - 1, bd)
            cT = pinst(p, inst)
            t = ('const', n, cT)
            argTs, _ = strip_fun(cT)
            for aT in argTs[:k]:
                t = ('comb', t, self.gen(aT, depth - 1, bd))
            return t
        if c == 'app':
            # apply a function-typed atom / bound / fresh variable
            aT = self.rand_type()
            f = self.gen(S.fun(aT, T), min(depth - 1, 1) if rng.random() < 0.7 else depth - 1, bd)
            return ('comb', f, self.gen(aT, depth - 1, bd))
        if c == 'abs':
            A, R = T[2]
            nm = rng.choice(self.names)
            used = [a[1] for a in self.ctx] + self.bound_names
            if used and rng.random() < self.clash_bias:
                nm = rng.choice(used)
                if rng.random() < 0.25:
                    nm = nm + '1'          # the variant name the printer would pick
            self.bound_names.append(nm)
            body = self.gen(R, depth - 1, (A,) + bd)
            self.bound_names.pop()
            return ('abs', nm, A, body)
        if c == 'redex':
            A = self.rand_type()
            body = self.gen(T, depth - 1, (A,) + bd)
            return ('comb', ('abs', rng.choice(self.names), A, body), self.gen(A, depth - 1, bd))
        raise AssertionError


def logic_pool():
    a, b = ('tv', 'a'), ('tv', 'b')
    sa = ('stv', 'a')
    return [(6, B), (5, a), (2, b), (2, sa), (2, S.fun(a, B)), (1, S.fun(B, B)), (1, S.fun(a, a)),
            (1, S.fun(a, b)), (1, S.fun(sa, B)), (0.5, S.funs(a, a, B)), (0.3, S.fun(S.fun(a, B), B))]
