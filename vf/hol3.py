"""Three-valued (Kleene) evaluator of first-order HOL formulas with arithmetic under HOL's own
semantics: nat quantifiers/variables range over 0.., nat minus truncates, x/0 = 0.  Quantifiers over
infinite types are evaluated on a finite range and only trusted in the sound direction
(forall: a False instance refutes; exists: a True instance proves); otherwise the value is None
(unknown).  Quantifiers over bool and over uninterpreted type variables (whose finite domain is part of
the chosen model) are exact.  Used as a counter-model validator: a goal counts as refuted only when it
evaluates to a definite False."""
from fractions import Fraction
from vf import shadow as S


class Unk(Exception):
    pass


NAT_RANGE = [Fraction(i) for i in range(0, 7)]
INT_RANGE = [Fraction(i) for i in range(-5, 6)]
REAL_RANGE = [Fraction(x) for x in (-3, -2, -1, 0, 1, 2, 3)] + [Fraction(1, 2), Fraction(-1, 2), Fraction(3, 2), Fraction(1, 3)]


class Model:
    def __init__(self, tv_sizes=None, oracle=None):
        self.tv = tv_sizes or {}
        self.oracle = oracle

    def domain(self, T):
        """(values, exact?)"""
        if T == S.BOOL:
            return [False, True], True
        if T == S.NAT:
            return NAT_RANGE, False
        if T == S.INT:
            return INT_RANGE, False
        if T == S.REAL:
            return REAL_RANGE, False
        if T[0] == 'tv':
            return list(range(self.tv.get(T[1], 2))), True
        raise Unk('no domain for %s' % S.ty_str(T))


def k_and(vals):
    r = True
    for v in vals:
        if v is False:
            return False
        if v is None:
            r = None
    return r


def k_or(vals):
    r = False
    for v in vals:
        if v is True:
            return True
        if v is None:
            r = None
    return r


def k_not(v):
    return None if v is None else (not v)


def is_num(T):
    return T in (S.NAT, S.INT, S.REAL)


def binary(s):
    if s[0] == 'const' and s[2] == S.NAT:
        return {'zero': 0, 'one': 1}.get(s[1])
    if s[0] == 'comb' and s[1][0] == 'const' and s[1][1] in ('bit0', 'bit1'):
        v = binary(s[2])
        return None if v is None else 2 * v + (1 if s[1][1] == 'bit1' else 0)
    return None


def ev(s, env, bd, m):
    """value of term s.  env: free atom -> value (Fraction / bool / int element / dict for functions /
    frozenset for sets); bd: tuple of values of bound variables.  Booleans may be None (unknown).
    Raises Unk when a non-boolean value cannot be determined."""
    k = s[0]
    if k == 'bound':
        return bd[s[1]]
    if k in ('var', 'svar'):
        if s in env:
            return env[s]
        raise Unk('no value for %s' % s[1])
    if k == 'const':
        n, T = s[1], s[2]
        if n == 'true':
            return True
        if n == 'false':
            return False
        if n == 'zero' and is_num(T):
            return Fraction(0)
        if n == 'one' and is_num(T):
            return Fraction(1)
        if n == 'empty_set':
            return frozenset()
        raise Unk('constant ' + n)
    if k == 'abs':
        raise Unk('lambda value')
    h, args = S.strip_comb(s)
    if h[0] in ('var', 'svar', 'bound'):
        f = ev(h, env, bd, m)
        for a in args:
            av = ev(a, env, bd, m)
            if av is None:
                raise Unk('unknown argument')
            if not isinstance(f, dict):
                raise Unk('applying a non-function')
            if av not in f:
                raise Unk('function table has no entry')
            f = f[av]
        return f
    if h[0] != 'const':
        raise Unk('head')
    n, T = h[1], h[2]
    na = len(args)
    if n in ('all', 'exists') and na == 1 and args[0][0] == 'abs':
        lam = args[0]
        try:
            dom, exact = m.domain(lam[2])
        except Unk:
            return None
        vals = []
        for d in dom:
            v = evb(lam[3], env, (d,) + bd, m)
            vals.append(v)
        if n == 'all':
            r = k_and(vals)
            if exact or r is False:
                return r
        else:
            r = k_or(vals)
            if exact or r is True:
                return r
        if getattr(m, 'oracle', None) is not None:
            return m.oracle(s, env, bd)
        return None
    if n == 'neg' and na == 1:
        return k_not(evb(args[0], env, bd, m))
    if n == 'conj' and na == 2:
        return k_and([evb(a, env, bd, m) for a in args])
    if n == 'disj' and na == 2:
        return k_or([evb(a, env, bd, m) for a in args])
    if n == 'implies' and na == 2:
        return k_or([k_not(evb(args[0], env, bd, m)), evb(args[1], env, bd, m)])
    if n == 'xor' and na == 2:
        a, b = evb(args[0], env, bd, m), evb(args[1], env, bd, m)
        return None if a is None or b is None else (a != b)
    if n == 'IF' and na == 3:
        c = evb(args[0], env, bd, m)
        if c is None:
            # both branches equal?
            try:
                x, y = ev(args[1], env, bd, m), ev(args[2], env, bd, m)
            except Unk:
                x, y = 1, 2
            if x is not None and x == y:
                return x
            if T[2][1][2][0] == S.BOOL:
                return None
            raise Unk('unknown condition')
        return ev(args[1] if c else args[2], env, bd, m)
    if n in ('equals', 'less', 'less_eq', 'greater', 'greater_eq') and na == 2:
        aT = T[2][0] if T[0] == 'tc' and T[1] == 'fun' else None
        if aT == S.BOOL and n == 'equals':
            a, b = evb(args[0], env, bd, m), evb(args[1], env, bd, m)
            return None if a is None or b is None else (a == b)
        try:
            a, b = ev(args[0], env, bd, m), ev(args[1], env, bd, m)
        except Unk:
            return None
        if a is None or b is None:
            return None
        if n == 'equals':
            return a == b
        if not (isinstance(a, Fraction) and isinstance(b, Fraction)):
            return None
        return {'less': a < b, 'less_eq': a <= b, 'greater': a > b, 'greater_eq': a >= b}[n]
    if n == 'member' and na == 2:
        try:
            x, st = ev(args[0], env, bd, m), ev(args[1], env, bd, m)
        except Unk:
            return None
        if isinstance(st, frozenset):
            return x in st
        return None
    # ---- numeric
    argTs, res = [], T
    for _ in args:
        argTs.append(res[2][0])
        res = res[2][1]
    if n in ('bit0', 'bit1'):
        v = binary(s)
        if v is None:
            raise Unk('binary')
        return Fraction(v)
    if n == 'of_nat' and na == 1:
        b = binary(args[0])
        if b is not None:
            return Fraction(b)
        return num(args[0], env, bd, m)
    if n == 'of_int' and na == 1:
        return num(args[0], env, bd, m)
    if n in ('plus', 'minus', 'times') and na == 2 and is_num(res):
        a, b = num(args[0], env, bd, m), num(args[1], env, bd, m)
        if n == 'plus':
            return a + b
        if n == 'times':
            return a * b
        return max(Fraction(0), a - b) if res == S.NAT else a - b
    if n == 'uminus' and na == 1:
        return -num(args[0], env, bd, m)
    if n == 'real_divide' and na == 2:
        a, b = num(args[0], env, bd, m), num(args[1], env, bd, m)
        return Fraction(0) if b == 0 else a / b
    if n == 'real_inverse' and na == 1:
        a = num(args[0], env, bd, m)
        return Fraction(0) if a == 0 else 1 / a
    if n == 'abs' and na == 1:
        return abs(num(args[0], env, bd, m))
    if n in ('max', 'min') and na == 2:
        a, b = num(args[0], env, bd, m), num(args[1], env, bd, m)
        return max(a, b) if n == 'max' else min(a, b)
    if n == 'Suc' and na == 1:
        return num(args[0], env, bd, m) + 1
    if n == 'power' and na == 2 and argTs[1] == S.NAT:
        a, e = num(args[0], env, bd, m), num(args[1], env, bd, m)
        if e.denominator != 1 or e < 0 or e > 64:
            raise Unk('exponent')
        return a ** int(e)
    raise Unk('operator ' + n)


def num(s, env, bd, m):
    v = ev(s, env, bd, m)
    if not isinstance(v, Fraction):
        raise Unk('not a number')
    return v


def evb(s, env, bd, m):
    try:
        v = ev(s, env, bd, m)
    except Unk:
        return None
    except (ZeroDivisionError, OverflowError):
        return None
    if v is None or isinstance(v, bool):
        return v
    return None


# ---------------------------------------------------------------- exact decision of closed arithmetic sentences
class Z3Oracle:
    """Independent, guard-correct HOL -> Z3 encoding (nat binders relativised to >= 0, truncated nat minus,
    total division) used ONLY to decide closed, function-free arithmetic sub-sentences whose bounded
    evaluation is inconclusive.  -> True / False / None."""

    def __init__(self, timeout_ms=2000):
        import z3
        self.z3 = z3
        self.timeout = timeout_ms
        self.calls = 0
        self.decided = 0
        self.cache = {}

    def sort(self, T):
        z3 = self.z3
        if T in (S.NAT, S.INT):
            return z3.IntSort()
        if T == S.REAL:
            return z3.RealSort()
        if T == S.BOOL:
            return z3.BoolSort()
        raise Unk('sort')

    def val(self, v, T):
        z3 = self.z3
        if T == S.BOOL:
            return z3.BoolVal(bool(v))
        if T in (S.NAT, S.INT):
            return z3.IntVal(int(v))
        if T == S.REAL:
            return z3.RealVal(str(Fraction(v)))
        raise Unk('val')

    def enc(self, s, env, bdz, bdT, fresh):
        z3 = self.z3
        k = s[0]
        if k == 'bound':
            return bdz[s[1]]
        if k in ('var', 'svar'):
            if s not in env or isinstance(env[s], (dict, frozenset)):
                raise Unk('free symbol')
            return self.val(env[s], s[2])
        if k == 'const':
            if s[1] == 'true':
                return z3.BoolVal(True)
            if s[1] == 'false':
                return z3.BoolVal(False)
            if s[1] in ('zero', 'one') and is_num(s[2]):
                return self.val(0 if s[1] == 'zero' else 1, s[2])
            raise Unk('const')
        if k == 'abs':
            raise Unk('lambda')
        h, args = S.strip_comb(s)
        if h[0] != 'const':
            raise Unk('head')
        n, T = h[1], h[2]
        na = len(args)
        e = lambda a: self.enc(a, env, bdz, bdT, fresh)
        if n in ('all', 'exists') and na == 1 and args[0][0] == 'abs':
            lam = args[0]
            fresh[0] += 1
            v = z3.Const('q%d' % fresh[0], self.sort(lam[2]))
            body = self.enc(lam[3], env, (v,) + bdz, (lam[2],) + bdT, fresh)
            if lam[2] == S.NAT:
                body = z3.Implies(v >= 0, body) if n == 'all' else z3.And(v >= 0, body)
            return z3.ForAll([v], body) if n == 'all' else z3.Exists([v], body)
        if n == 'neg' and na == 1:
            return z3.Not(e(args[0]))
        if n in ('conj', 'disj', 'implies') and na == 2:
            a, b = e(args[0]), e(args[1])
            return {'conj': z3.And, 'disj': z3.Or, 'implies': z3.Implies}[n](a, b)
        if n == 'IF' and na == 3:
            return z3.If(e(args[0]), e(args[1]), e(args[2]))
        argTs, res = [], T
        for _ in args:
            argTs.append(res[2][0])
            res = res[2][1]
        if n in ('equals', 'less', 'less_eq', 'greater', 'greater_eq') and na == 2:
            a, b = e(args[0]), e(args[1])
            return {'equals': a == b, 'less': a < b, 'less_eq': a <= b, 'greater': a > b, 'greater_eq': a >= b}[n]
        if n in ('bit0', 'bit1') or (n == 'of_nat' and na == 1 and binary(args[0]) is not None):
            b = binary(s) if n != 'of_nat' else binary(args[0])
            if b is None:
                raise Unk('binary')
            return self.val(b, res)
        if n == 'of_nat' and na == 1:
            a = e(args[0])
            return z3.ToReal(a) if res == S.REAL else a
        if n in ('plus', 'minus', 'times') and na == 2:
            a, b = e(args[0]), e(args[1])
            if n == 'plus':
                return a + b
            if n == 'times':
                return a * b
            return z3.If(a >= b, a - b, z3.IntVal(0)) if res == S.NAT else a - b
        if n == 'uminus' and na == 1:
            return -e(args[0])
        if n == 'real_divide' and na == 2 and res == S.REAL:
            a, b = e(args[0]), e(args[1])
            return z3.If(b == 0, z3.RealVal(0), a / b)
        if n == 'abs' and na == 1:
            a = e(args[0])
            return z3.If(a >= 0, a, -a)
        if n in ('max', 'min') and na == 2:
            a, b = e(args[0]), e(args[1])
            return z3.If(a >= b, a, b) if n == 'max' else z3.If(a <= b, a, b)
        raise Unk('op ' + n)

    def __call__(self, s, env, bd, bdT=None):
        """decide closed sentence s (bound values bd are substituted as constants)"""
        z3 = self.z3
        if bd:
            return None      # only top-level-closed sentences (under instantiated outer binders we have no types)
        key = (s, tuple(sorted((repr(k), repr(v)) for k, v in env.items() if not isinstance(v, (dict, frozenset)))))
        if key in self.cache:
            return self.cache[key]
        self.calls += 1
        res = None
        try:
            f = self.enc(s, env, (), (), [0])
            for want, phi in ((True, z3.Not(f)), (False, f)):
                sv = z3.Solver()
                sv.set('timeout', self.timeout)
                sv.add(phi)
                if str(sv.check()) == 'unsat':
                    res = want
                    break
        except Unk:
            res = None
        except Exception:
            res = None
        if res is not None:
            self.decided += 1
        self.cache[key] = res
        return res
