"""Standalone reproducers for the C12 findings (loader state depends on process history).

    cd /repo && /venv/bin/python /verif/tools/c12_repro.py          # runs every case in its own fresh process
    cd /repo && /venv/bin/python /verif/tools/c12_repro.py R1       # one case

Nothing is written under the repo: cases that need other library files point logic.basic.dirname at a temporary tree.
Each case prints what a fresh process gives and what the process with the history gives.
"""
import sys, os, json, subprocess, tempfile, shutil

REPO = os.environ.get('VF_REPO', '/repo')
sys.path.insert(0, REPO)


def T(imports, content):
    return json.dumps({'name': 'x', 'imports': imports, 'description': '', 'content': content})


def ax(name, prop, vars=None):
    return {'ty': 'thm.ax', 'name': name, 'vars': vars or {}, 'prop': prop}


def tree(files, users=None):
    root = tempfile.mkdtemp(prefix='c12_repro_')
    os.mkdir(root + '/logic')
    os.mkdir(root + '/library')
    os.symlink(REPO + '/library/logic_base.json', root + '/library/logic_base.json')
    for n, t in files.items():
        open(root + '/library/%s.json' % n, 'w').write(t)
    for u, fs in (users or {}).items():
        os.makedirs(root + '/users/' + u)
        os.symlink(REPO + '/library/logic_base.json', root + '/users/%s/logic_base.json' % u)
        for n, t in fs.items():
            open(root + '/users/%s/%s.json' % (u, n), 'w').write(t)
    from logic import basic
    basic.dirname = root + '/logic'
    return root


def rewrite(root, name, text, delta=10):
    p = root + '/library/%s.json' % name
    old = os.path.getmtime(p)
    open(p, 'w').write(text)
    os.utime(p, (old + delta, old + delta))


def thms():
    from kernel import theory
    return sorted(theory.thy.data['theorems'])


def R1():
    """mech dump-differs-by-history:after-interrupted-load - real library, no file is touched"""
    from logic import basic
    from server import items
    orig, n = items.parse_item, [0]

    def interrupting(d):
        n[0] += 1
        if n[0] == 100:
            raise KeyboardInterrupt          # e.g. Ctrl-C while the 31st item of 'logic' is parsed
        return orig(d)
    items.parse_item = interrupting
    try:
        basic.load_theory('nat')
    except KeyboardInterrupt:
        pass
    items.parse_item = orig
    basic.load_theory('set')                  # returns normally ...
    print('R1 load_theory("set") after an interrupted load: %d theorems (fresh process: 538)' % len(thms()))


def R2():
    """mech error-case-returned-instead-of-raising:corrupt-file-after-first-failed-attempt"""
    from logic import basic
    t1 = T(['logic_base'], [ax('a1', 'true'), ax('a2', 'true'), ax('a3', 'true')])
    bad = T(['logic_base'], [ax('a1', 'true'), {'ty': 'no.such.kind', 'name': 'z'}, ax('a3', 'true')])
    root = tree({'t1': t1})
    try:
        basic.load_theory('t1')
        rewrite(root, 't1', bad)
        for attempt in (1, 2):
            try:
                basic.load_theory('t1')
                print('R2 attempt %d on the unreadable file: returned, own theorems %s (fresh process: KeyError)' % (
                    attempt, [x for x in thms() if x in ('a1', 'a2', 'a3')]))
            except Exception as e:
                print('R2 attempt %d on the unreadable file: raised %s' % (attempt, type(e).__name__))
    finally:
        shutil.rmtree(root)


def R3():
    """mech changed-file-not-reread:dependent-keeps-items-parsed-against-old-import"""
    from logic import basic
    from kernel import theory
    t1a = T(['logic_base'], [{'ty': 'def.ax', 'name': 'f', 'type': 'bool => bool'}])
    t1b = T(['logic_base'], [{'ty': 'def.ax', 'name': 'f', 'type': 'bool => bool => bool'}])
    t2 = T(['t1'], [ax('g', 'f x = f x', {'x': 'bool'})])
    root = tree({'t1': t1a, 't2': t2})
    try:
        basic.load_theory('t2')
        rewrite(root, 't1', t1b)
        basic.load_theory('t2')
        print('R3 after t1 changed: f :: %s but theorem g is still %s  (fresh process: g compares functions of type bool => bool)' % (
            theory.thy.get_term_sig('f'), theory.thy.get_theorem('g', svar=False)))
        print('   type of the equality in g:', theory.thy.get_theorem('g', svar=False).prop.lhs.get_type())
    finally:
        shutil.rmtree(root)


def R4():
    """mech changed-file-not-reread:import-list-of-changed-file-stale / error-case-returned-instead-of-raising:cycle-introduced-by-file-change"""
    from logic import basic
    t1 = T(['logic_base'], [ax('t1_ax', 'true')])
    t3 = T(['logic_base'], [ax('t3_ax', 'true')])
    t2a = T(['t1'], [ax('t2_ax', 'true')])
    t2b = T(['t3'], [ax('t2_ax', 'true')])
    root = tree({'t1': t1, 't2': t2a, 't3': t3})
    try:
        basic.load_theory('t2')
        rewrite(root, 't2', t2b)
        basic.load_theory('t2')
        print('R4 t2 now imports t3, loaded: %s (fresh process: t3_ax, t2_ax)' % [x for x in thms() if x in ('t1_ax', 't2_ax', 't3_ax')])
        rewrite(root, 't1', T(['t2'], [ax('t1_ax', 'true')]))
        rewrite(root, 't3', T(['t1'], [ax('t3_ax', 'true')]))          # t1 -> t2 -> t3 -> t1
        basic.load_theory('t1')
        print('R4 import cycle t1 -> t2 -> t3 -> t1 created by edits: load_theory("t1") returned normally (fresh process: "Cycle in imports")')
    finally:
        shutil.rmtree(root)


def R5():
    """mech file-added-after-first-load-not-seen"""
    from logic import basic
    root = tree({'t1': T(['logic_base'], [ax('t1_ax', 'true')])})
    try:
        basic.load_theory('t1')
        open(root + '/library/t4.json', 'w').write(T(['t1'], [ax('t4_ax', 'true')]))
        try:
            basic.load_theory('t4')
            print('R5 new file loaded')
        except KeyError as e:
            print('R5 theory file added after the first load: KeyError %s (fresh process loads it)' % e)
    finally:
        shutil.rmtree(root)


def R6():
    """mech cycle:error-reported-once-then-unrelated-loads-succeed"""
    from logic import basic
    root = tree({'a': T(['b'], [ax('a_ax', 'true')]), 'b': T(['a'], [ax('b_ax', 'true')]),
                 'good': T(['logic_base'], [ax('good_ax', 'true')])})
    try:
        for attempt in (1, 2):
            try:
                basic.load_theory('good')
                print('R6 attempt %d: load_theory("good") returned' % attempt)
            except Exception as e:
                print('R6 attempt %d: load_theory("good") raised %s: %s' % (attempt, type(e).__name__, e))
    finally:
        shutil.rmtree(root)


def R7():
    """mech username:fresh-process-load-raises-KeyError-master-but-succeeds-after-history"""
    from logic import basic
    t1 = T(['logic_base'], [ax('t1_ax', 'true')])
    root = tree({'t1': t1}, users={'u1': {'t1': t1}})
    try:
        for attempt in (1, 2):
            try:
                basic.load_theory('t1', username='u1')
                print('R7 attempt %d: load_theory("t1", username="u1") returned' % attempt)
            except Exception as e:
                print('R7 attempt %d: load_theory("t1", username="u1") raised %s: %s' % (attempt, type(e).__name__, e))
    finally:
        shutil.rmtree(root)


if __name__ == '__main__':
    cases = ['R1', 'R2', 'R3', 'R4', 'R5', 'R6', 'R7']
    if len(sys.argv) > 1:
        globals()[sys.argv[1]]()
    else:
        for c in cases:
            subprocess.run([sys.executable, os.path.abspath(__file__), c], cwd=REPO,
                           env=dict(os.environ, PYTHONPATH=REPO, PYTHONDONTWRITEBYTECODE='1'))
