#!/venv/bin/python
"""Regenerates seeded/README.md from seeded/*/meta.json"""
import json, os, glob
rows = []
for d in sorted(glob.glob('/verif/seeded/*/')):
    x = os.path.basename(d.rstrip('/'))
    try:
        m = json.load(open(d + 'meta.json'))
    except Exception:
        continue
    cv = m.get('coordinator_validation', {})
    res = cv.get('quick_check_results', {})
    det = ', '.join('%s:%s' % (c, 'caught' if r['detected'] else 'MISSED') for c, r in res.items())
    mech = '; '.join(r['mechanisms'][0] for r in res.values() if r.get('mechanisms'))
    what = (m.get('what_it_breaks') or '').replace('\n', ' ')[:260]
    files = m.get('files_changed')
    if isinstance(files, list):
        files = ', '.join(files)
    rows.append((x, files, what, (m.get('needs_to_manifest') or '').replace('\n', ' ')[:200], det, mech[:120]))
with open('/verif/seeded/README.md', 'w') as f:
    f.write('# Independently seeded breaks\n\nEach directory holds patch.diff (against /repo at the time of seeding), demo.py (exits 1 with the patch, 0 without) '
            'and meta.json (author notes + coordinator validation: demo exit codes, 600/600 baseline tests, result of the quick check run with '
            '`VF_REPO=<patched tree> ./check <ID> quick`).\n\n| seed | files | what it breaks | needs | quick check | first mechanism reported |\n|---|---|---|---|---|---|\n')
    for r in rows:
        f.write('| %s | %s | %s | %s | %s | %s |\n' % tuple(str(c).replace('|', '\\|') for c in r))
print(len(rows), 'seeds')
