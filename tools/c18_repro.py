"""Minimal reproducers for the C18 findings (run: cd /repo && /venv/bin/python /verif/tools/c18_repro.py).
Each line calls the real macro.eval; 'ACCEPT' + the sequent shows an accepted step that is not a consequence."""
import sys, os, warnings
warnings.filterwarnings('ignore')
sys.path[:0] = ['/verif', os.environ.get('VF_REPO', '/repo')]
from vf import core
core.setup_repo()
_out = sys.stdout
sys.stdout = open(os.devnull, 'w')
import smt.veriT.verit_macro, smt.veriT.la_generic
from kernel import theory
from kernel.term import *
from kernel.type import *
from kernel.thm import Thm
from logic import basic, logic
basic.load_theory('verit')
G = theory.global_macros
a, b, c, d = [Var(n, BoolType) for n in 'abcd']
x, y = Var('x', IntType), Var('y', IntType)
r, s = Var('r', RealType), Var('s', RealType)
U = TVar('U')
u, v, w = [Var(n, U) for n in 'uvw']
f = Var('f', TFun(U, U)); P = Var('P', TFun(U, BoolType)); T3 = Var('T3', TFun(U, U, U, BoolType))
A = lambda t: Thm(t, t)
ite = logic.mk_if
eps = lambda body: logic.mk_some(u, body)


def t(mech, name, args, prevs=()):
    try:
        th = G[name].eval(args, list(prevs))
        res = 'ACCEPT  %s' % th
    except Exception as e:
        res = 'rejected (%s)' % type(e).__name__
    print('%-42s %s' % (mech, res), file=_out)


t('not_and:non-consequence', 'verit_not_and', (Not(a),), [A(Not(And(a, b)))])
t('not_or:non-consequence', 'verit_not_or', (And(c, a),), [A(Not(Or(a, b)))])
t('not_not:non-consequence', 'verit_not_not', (And(a, Or(b, Not(c))), c))
t('and_pos:non-consequence', 'verit_and_pos', (And(a, b), b))
t('and_neg:non-consequence', 'verit_and_neg', (And(a, b), Not(a)))
t('or_pos:non-consequence', 'verit_or_pos', (Implies(c, Or(a, b)), a, b))
t('implies:non-consequence', 'verit_implies', (Not(a), b), [A(And(a, b))])
t('equiv1:non-consequence', 'verit_equiv1', (Not(a), b), [A(Or(a, b))])
t('equiv2:non-consequence', 'verit_equiv2', (a, Not(b)), [A(Implies(a, b))])
t('not_equiv1:non-consequence', 'verit_not_equiv1', (a, b), [A(And(c, Eq(a, b)))])
t('not_equiv2:non-consequence', 'verit_not_equiv2', (Or(c, a), Not(b)), [A(Not(Eq(a, b)))])
t('equiv_pos1:non-consequence', 'verit_equiv_pos1', (And(c, Or(a, b)), a, Not(b)))
t('equiv_pos2:non-consequence', 'verit_equiv_pos2', (Not(Or(a, b)), Not(a), b))
t('eq_congruent_pred:non-consequence', 'verit_eq_congruent_pred',
  (Not(Eq(u, v)), Not(Eq(u, v)), Not(T3(u, u, u)), T3(v, v, w)))
t('eq_simplify:non-consequence', 'verit_eq_simplify', (Eq(Eq(x, y), false),))
t('eq_simplify:non-consequence (2)', 'verit_eq_simplify', (Eq(Not(Eq(Int(1), Int(2))), false),))
t('not_implies1:conclusion-loses-hypotheses', 'verit_not_implies1', (a,), [A(Not(Implies(a, b)))])
t('not_implies2:conclusion-loses-hypotheses', 'verit_not_implies2', (Not(b),), [A(Not(Implies(a, b)))])
t('subproof:conclusion-loses-hypotheses', 'verit_subproof', (Not(a), And(a, c)), [A(a), Thm(And(a, c), a, c)])
t('let:non-consequence', 'verit_let', (Eq(Let(u, v, P(u)), P(w)),), [Thm(Eq(P(u), P(w)), Eq(u, w))])
t('bind:non-consequence', 'verit_bind', (Eq(Forall(u, P(u)), Forall(v, P(w))), {'u': v}),
  [Thm(Eq(P(u), P(w)), Eq(u, w))])
t('sko_ex:non-consequence', 'verit_sko_ex', (Eq(Exists(u, P(u)), P(w)), {'u': eps(P(u))}),
  [Thm(Eq(P(u), P(w)), Eq(u, w))])
t('sko_forall:non-consequence', 'verit_sko_forall', (Eq(Forall(u, P(u)), P(w)), {'u': eps(Not(P(u)))}),
  [Thm(Eq(P(u), P(w)), Eq(u, w))])
t('onepoint:non-consequence', 'verit_onepoint',
  (Eq(Forall(u, Implies(Eq(u, v), P(u))), Implies(Eq(w, v), P(w))), {'u': w}))
t('qnt_cnf:non-consequence', 'verit_qnt_cnf', (Or(Not(P(u)), Forall(u, P(u))),))
t('qnt_simplify:non-consequence', 'verit_qnt_simplify', (Eq(Forall(u, P(u)), P(u)),))
t('qnt_rm_unused:non-consequence', 'verit_qnt_rm_unused', (Eq(Forall(u, Forall(v, P(u))), Exists(u, P(u))),))
t('connective_def:non-consequence', 'verit_connective_def', (Eq(Eq(a, b), And(Implies(a, b), Implies(c, a))),))
t('implies_simplify:non-consequence', 'verit_implies_simplify',
  (Eq(Implies(Implies(Implies(a, b), b), false), Or(a, b)),))
t('unary_minus_simplify:non-consequence', 'verit_unary_minus_simplify', (Eq(-(x - y), y),))
t('ite_intro:non-consequence', 'verit_ite_intro', (Eq(P(ite(a, u, v)), Or(P(ite(a, u, v)), b)),))
t('ite_simplify:non-consequence', 'verit_ite_simplify', (Eq(ite(a, ite(a, u, v), w), ite(b, u, w)),))
t('la_generic:non-consequence', 'verit_la_generic', (r <= Real(0), s < Real(0), (Real(0), Real(0))))
t('ac_simp:non-consequence', 'verit_ac_simp',
  (Eq(And(And(a, Eq(x + y, Int(1))), b), And(a, Eq(x - y, Int(1)), b)),))

# end to end: the assumptions are satisfiable (q2 = q4 = false), the proof of the empty clause is accepted
from smt.veriT import proof_parser, proof_rec
prs = proof_parser.proof_parser({'q2': BoolType, 'q4': BoolType})
steps = [prs.parse(l) for l in ['(assume a0 (not q2))', '(assume a1 (not (and (not q2) q4)))',
                                '(step t1 (cl (not (not q2))) :rule not_and :premises (a1))',
                                '(step t2 (cl) :rule th_resolution :premises (a0 t1))']]
try:
    pt = proof_rec.ProofReconstruction(steps).validate(is_eval=True, with_bar=False)
    print('%-42s ACCEPT  %s' % ('e2e:empty-clause-from-satisfiable-hyps', pt.th), file=_out)
except Exception as e:
    print('%-42s rejected (%s)' % ('e2e:empty-clause-from-satisfiable-hyps', type(e).__name__), file=_out)
