#!/bin/bash
# usage: tools/seedcheck.sh C02_1 [check ids...]   validates a seeded break in /tmp/seed_<x> and runs the checks against it
set -u
X="$1"; shift
ID="${X%%_*}"
WT=/tmp/seed_$X; OUT=/tmp/seed_out/$X
CHECKS="${*:-$ID}"
cd /verif
echo "== seed $X: $(jq -r .what_it_breaks $OUT/meta.json 2>/dev/null | cut -c1-300)"
( cd $WT && git diff > $OUT/patch.diff; git diff --stat | tail -1 )
run_demo() { ( cd $WT && PYTHONPATH=$WT PYTHONDONTWRITEBYTECODE=1 timeout 600 /venv/bin/python $OUT/demo.py >/tmp/seed_demo_$X.log 2>&1; echo $? ); }
WITH=$(run_demo)
( cd $WT && git diff > /tmp/seed_patch_$X.diff && git checkout -q -- . )
WITHOUT=$(run_demo)
( cd $WT && git apply /tmp/seed_patch_$X.diff )
echo "demo exit with patch: $WITH   without: $WITHOUT"
BASE=$(tools/baseline.py $WT 2>&1 | tail -1)
echo "baseline: $BASE"
for c in $CHECKS; do
  VF_REPO=$WT ./check $c quick > /tmp/seed_check_${X}_$c.log 2>&1; RC=$?
  echo "check $c quick on seeded tree: exit $RC"
  grep -m3 "mechanism=" /tmp/seed_check_${X}_$c.log | cut -c1-260
done
# ---- save into /verif/seeded/<X>/ when the seed itself is valid (demo 1/0 and baseline intact)
if [ "$WITH" != "0" ] && [ "$WITHOUT" = "0" ] && echo "$BASE" | grep -q "missing=0"; then
  D=/verif/seeded/$X; mkdir -p $D
  cp $OUT/patch.diff $D/patch.diff; cp $OUT/demo.py $D/demo.py
  /venv/bin/python - "$X" "$WITH" "$WITHOUT" "$BASE" $CHECKS <<'PY'
import json, sys, re, os
X, w, wo, base = sys.argv[1:5]; checks = sys.argv[5:]
out = '/tmp/seed_out/%s/meta.json' % X
try: meta = json.load(open(out))
except Exception: meta = {}
res = {}
for c in checks:
    log = open('/tmp/seed_check_%s_%s.log' % (X, c)).read()
    mechs = sorted(set(re.findall(r'mechanism=(\S+)', log)))
    res[c] = {'detected': bool(re.search(r'^VIOLATION property=', log, re.M)), 'mechanisms': mechs[:8],
              'inconclusive': 'INCONCLUSIVE' in log}
meta['coordinator_validation'] = {'property': X.split('_')[0], 'demo_exit_with_patch': int(w), 'demo_exit_without_patch': int(wo),
    'baseline': base, 'ran': ['tools/seedcheck.sh ' + X + ' ' + ' '.join(checks)], 'quick_check_results': res}
json.dump(meta, open('/verif/seeded/%s/meta.json' % X, 'w'), indent=1)
print('saved /verif/seeded/%s' % X, {c: r['detected'] for c, r in res.items()})
PY
else
  echo "seed $X NOT valid (demo/baseline) - not saved"
fi
