"""C11 reproducers against the real code (run: cd /repo && /venv/bin/python /verif/tools/c11_repro.py).
Each block prints what the repo accepts; the mechanism key of the check is given in the comment."""
import sys, types, copy, io, contextlib
m = types.ModuleType('smt'); m.__path__ = ['/repo/smt']; sys.modules['smt'] = m
sys.path.insert(0, '/repo')
from logic import basic
from kernel import theory
from server import items
from syntax.settings import global_setting

basic.load_theory('list')
base = theory.thy


def offer(d):
    theory.thy = copy.copy(base)
    with contextlib.redirect_stdout(io.StringIO()):
        it = items.parse_item(d)
    if it.error is not None:
        return 'rejected by parse: %r' % (it.error,), it
    try:
        theory.thy.unchecked_extend(it.get_extension())
    except Exception as e:
        return 'rejected by extend: %r' % (e,), it
    return 'ACCEPTED', it


# def:self-reference-accepted            (bad1_def gives  bad1 n <--> ~bad1 n,  hence false)
print(offer({'ty': 'def', 'name': 'bad1', 'type': 'nat => bool', 'prop': 'bad1 n <--> ~(bad1 n)'})[0])
# def:rhs-type-variable-not-in-constant-type   (bad2 :: bool is true at 'a := unit-like types and false at nat)
print(offer({'ty': 'def', 'name': 'bad2', 'type': 'bool', 'prop': "bad2 <--> (!x::'a. !y. x = y)"})[0])
# def:non-variable-argument
print(offer({'ty': 'def', 'name': 'bad3', 'type': 'nat => nat', 'prop': 'bad3 0 = 1'})[0])
# def:overloaded-instance-already-declared  (nat_plus is defined in nat.json; now  x + y = x  as well: 0 + 1 = 0 and = 1)
r, it = offer({'ty': 'def', 'name': 'plus', 'type': 'nat => nat => nat', 'prop': 'plus x y = x'})
print(r, [str(e) for e in it.get_extension()] if r == 'ACCEPTED' else '')
# ext:thm.ax:statement-not-bool / ext:thm:statement-not-bool
print(offer({'ty': 'thm.ax', 'name': 'ax1', 'vars': {'x': 'nat'}, 'prop': 'x + 1'})[0])
# ext:def.pred:statement-not-bool
print(offer({'ty': 'def.pred', 'name': 'p1', 'type': 'nat => nat => bool', 'rules': [{'name': 'p1_a', 'prop': 'p1 0'}]})[0])
# ext:type.ind:ill-formed-extension:constructor-result-is-not-the-datatype   (T1_induct / T1_A1_B1_neq are ill-typed)
r, it = offer({'ty': 'type.ind', 'name': 'T1', 'args': [], 'constrs': [{'name': 'A1', 'args': ['x'], 'type': 'nat => nat'},
                                                                       {'name': 'B1', 'args': [], 'type': 'T1'}]})
print(r)
for e in it.get_extension():
    if e.is_theorem():
        try:
            e.th.prop.checked_get_type()
        except Exception as ex:
            print('   ', e.name, 'ill-typed:', ex)
# roundtrip:edit:type.ind:get_display-raises:constructor-argument-names-do-not-match-its-type
r, it = offer({'ty': 'type.ind', 'name': 'T2', 'args': [], 'constrs': [{'name': 'A2', 'args': ['x', 'y'], 'type': 'nat => T2'}]})
try:
    it.get_display()
except Exception as ex:
    print(r, 'but get_display raises', repr(ex))
# ext:type.ax:type-redeclared-with-other-arity
r, it = offer({'ty': 'type.ax', 'name': 'nat', 'args': ['a']})
print(r, 'arity of nat is now', theory.thy.get_type_sig('nat'))
# (library:)roundtrip:edit-in-theory-before-item:type.ind:parse-back-raises:TheoryException
#   what app/ide.py check_modify does for the datatype `nat` of library/nat.json: theory up to the item, then parse_edit
basic.load_theory('nat', limit=('type.ind', 'nat'))
try:
    items.parse_edit({'ty': 'type.ind', 'type': 'nat', 'constrs': 'zero\nSuc (n :: nat)'})
except Exception as ex:
    print('parse_edit of the editor form of datatype nat raises', repr(ex), getattr(ex, 'str', ''))
# roundtrip:edit+edit-web:def.ind:parse-back-rejected:UnexpectedToken:no-rules  (same for def.pred / type.ind without constructors)
r, it = offer({'ty': 'def.ind', 'name': 'f1', 'type': 'nat => nat', 'rules': []})
with global_setting(unicode=True, highlight=False):
    disp = it.get_display()
theory.thy = copy.copy(base)
with contextlib.redirect_stdout(io.StringIO()):
    it2 = items.parse_edit(disp)
print(r, 'editor form', disp, '-> parse_edit error:', type(it2.error).__name__)
# roundtrip:json+edit+edit-web:def.pred:parse-back-rejected:TypeInferenceException
r, it = offer({'ty': 'def.pred', 'name': 'p2', 'type': 'nat => bool', 'rules': [{'name': 'p2_a', 'prop': '(a::nat) < 1 --> p2 0'}]})
js = it.export_json()
theory.thy = copy.copy(base)
with contextlib.redirect_stdout(io.StringIO()):
    it2 = items.parse_item(js)
print(r, 'exported as', js['rules'], '-> parse_item error:', type(it2.error).__name__)
