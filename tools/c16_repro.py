# standalone reproducers for the C16 findings (cwd=/repo, PYTHONPATH=/repo)
import sys, types
m = types.ModuleType('smt'); m.__path__ = ['/repo/smt']; sys.modules['smt'] = m
from prover import omega, simplex, simplex_strict
from prover.simplex import Jar, GreaterEq, LessEq, Simplex, SimplexHOLWrapper, branch_and_bound, IntSimplexTree
from kernel.term import Var, Int, Real, IntType, RealType, less_eq, greater_eq
from kernel import theory
from logic import context

print('F1a', omega.solve_matrix([[-2, 1]]))              # SAT {0: 1}   but 0 <= -2*1 + 1 is false (x=0 works)
print('F1b', omega.solve_matrix([[2, -2], [-1, 1]])[0])  # UNSAT        but x=1 satisfies 0<=2x-2, 0<=-x+1
print('F1c', omega.solve_matrix([[0, -1], [1, 0]]))      # SAT {0: 0}   but row 0 is 0 <= -1
x = Var('x', IntType)
print('F1d', omega.OmegaHOL([less_eq(IntType)(Int(0), Int(2) * x + Int(-1)), less_eq(IntType)(Int(0), Int(-2) * x + Int(1))]).solve())
#            {0: 1}: "2x-1>=0 and -2x+1>=0" has no integer solution at all, and x=1 violates the second

def ge(co, b): return GreaterEq([Jar(c, v) for c, v in co], b)
def le(co, b): return LessEq([Jar(c, v) for c, v in co], b)
w = SimplexHOLWrapper()
w.add_ineqs([ge([(1, 'a'), (1, 'b')], 0), ge([(1, 'a'), (-1, 'b')], -10), le([(1, 'a'), (1, 'b')], -1)])
r = w.handle_assertion()
print('F2', {k: str(v) for k, v in r.items()} if isinstance(r, dict) else r)   # a "SAT" mapping although a+b>=0 and a+b<=-1 are contradictory

s = Simplex(); s.add_ineqs(le([(1, 'x')], 4), ge([(2, 'x')], 1), le([(3, 'x')], 4))
r = branch_and_bound(s, [], [])
print('F3', type(r).__name__)      # IntSimplexTree = "no integer solution", but x=1 is one (KeyError '$b$' swallowed by bare except)

context.set_context('real', vars={'x_1': 'real', 'x_2': 'real'})
from syntax.parser import parse_term
tms = [parse_term(t) for t in ("x_1 >= 10", "x_1 + -1 * x_2 <= 0", "x_2 <= 9")]
pt = simplex.SimplexMacro().get_proof_term(args=tms)
print('F4', theory.thy.check_proof(pt.export()))      # x_2 <= 9, x_2 >= 10, x_2 + -1 * x_2 <= 0 |- false  (not the given constraints)

context.set_context('real', vars={'u': 'real'})
tms = [parse_term(t) for t in ("u <= 3", "u >= 4")]
pt = simplex_strict.StrictSimplexMacro().get_proof_term(args=tms)
print('F5', theory.thy.check_proof(pt.export()))      # x_0 <= 3, x_0 >= 4 |- false  (internal names)

s = Simplex(); s.add_ineqs(ge([(0, 'x')], 3)); s.handle_assertion(); print('F6a', s.mapping)     # "SAT" for 0*x >= 3
context.set_context('real', vars={'u': 'real'})
print('F6b', simplex.SimplexMacro().get_proof_term(args=[parse_term("(0::real) >= 3"), parse_term("u >= 1")]))  # prints SAT
