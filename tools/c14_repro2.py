"""C14 reproducer 2: ProofState.apply_tactic overwrites an open sub-goal with an unrelated `trivial` line.
mechanism key emitted by vf/props/c14.py:  apply_backward_step:advertised-subgoal-neither-open-nor-closed

run:  cd /repo && PYTHONPATH=/repo /venv/bin/python /verif/tools/c14_repro2.py

apply_tactic first removes every new sub-goal that an earlier line already proves (replace_id -> remove_line; the ids
of the following lines are decremented), then walks the SAME list of new items again to turn trivial sub-goals into
`trivial` lines - including the items it has just removed, whose ids are stale.  A new sub-goal that is both already
proved and trivial (X --> X) therefore overwrites the line that moved into its place: the other new sub-goal.
(found on library state prime.coprime_exp2 after 6 recorded steps, goal 0.2.1, fact 0.0, suggestion disjE)
"""
import copy
from logic import basic, context   # noqa
from server import server, method
from syntax import parser

context.set_context('logic_base', vars={'X': 'bool', 'Y': 'bool'})
state = server.parse_init_state(parser.parse_term('X | Y --> X'))
method.apply_method(state, {'method_name': 'apply_backward_step', 'theorem': 'disjE', 'goal_id': '1', 'fact_ids': ['0']})
method.apply_method(state, {'method_name': 'introduction', 'goal_id': '2', 'names': ''})
print(state, '\n')
sugg = [r for r in state.search_method('2.1', ['0']) if r.get('theorem') == 'disjE']
print('suggestion:', {k: ([str(t) for t in v] if k == '_goal' else v) for k, v in sugg[0].items() if k != 'display'}, '\n')
st = copy.copy(state)
method.apply_method(st, sugg[0])
print(st)
print('\nopen goals after the step:', [str(g) for g in st.prf.get_sorrys()], '  (advertised Y --> X is gone, line 2.1 proves X --> X instead)')
try:
    st.check_proof()
    print('full check passed')
except Exception as e:
    print('full check of the new state fails:', type(e).__name__, getattr(e, 'str', e))
