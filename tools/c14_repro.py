"""C14 reproducer: a suggestion of the `induction` method fails outright (IndexError) when the goal is an implication.
run:  cd /repo && /venv/bin/python /verif/tools/c14_repro.py"""
import copy
from logic import basic, context
from server import server, method
from syntax import parser

context.set_context('nat', vars={'n': 'nat'})
state = server.parse_init_state(parser.parse_term('n = 0 --> n + 0 = n'))
# make the implication itself the open goal (as after `cut`, or any sub-goal of that shape): line 0 is the goal
from kernel.thm import Thm
from kernel.proof import Proof
state.prf = Proof()
state.prf.add_item(0, 'sorry', th=Thm(parser.parse_term('n = 0 --> n + 0 = n')))
state.check_proof(compute_only=True)
sugg = [r for r in state.search_method('0', []) if r['method_name'] == 'induction']
print('suggested:', [{k: v for k, v in r.items() if k != 'display'} for r in sugg])
for r in sugg:
    try:
        method.apply_method(copy.copy(state), r)
        print('applied')
    except Exception as e:
        print('apply_method raised', type(e).__name__, e)
