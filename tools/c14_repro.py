"""C14 reproducer: a suggestion of the `induction` method fails outright (IndexError) when the goal is an implication.
mechanism key emitted by vf/props/c14.py:  induction:fails-outright:IndexError

run:  cd /repo && PYTHONPATH=/repo /venv/bin/python /verif/tools/c14_repro.py

tactic.var_induct instantiates the induction theorem  P 0 --> (!n. P n --> P (Suc n)) --> P x  with P := %n. goal and
then takes ALL antecedents of the instantiated proposition as new sub-goals; when the goal is itself A --> B its
antecedent A is counted as a third premise and apply_theorem indexes past the theorem's two assumptions.
induction.search suggests the step for every goal that mentions a variable of the induction type.
(160 of ~900 induction suggestions in one quick run over the library states fail this way, e.g. nat.less_lesseq
after 2 recorded steps, goal 1.)
"""
import copy
from logic import basic, context   # noqa
from kernel.thm import Thm
from kernel.proof import Proof
from server import server, method
from syntax import parser

context.set_context('nat', vars={'n': 'nat'})
state = server.parse_init_state(parser.parse_term('n + 0 = n'))   # only to get a state that knows the variable n
state.prf = Proof()
state.prf.add_item(0, 'sorry', th=Thm(parser.parse_term('n = 0 --> n + 0 = n')))   # an open goal that is an implication
state.check_proof(compute_only=True)
sugg = [r for r in state.search_method('0', []) if r['method_name'] == 'induction']
print('suggested:', [{k: v for k, v in r.items() if k != 'display'} for r in sugg])
for r in sugg:
    try:
        method.apply_method(copy.copy(state), r)
        print('applied')
    except Exception as e:
        print('apply_method raised', type(e).__name__, e)
