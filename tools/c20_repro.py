"""C20 reproducers against the real code (run: cd /repo && PYTHONPATH=/repo /venv/bin/python /verif/tools/c20_repro.py).
Each line: printed text of an expression object, what parser2.cond_parser reads back, and whether it is the same object."""
from imperative import expr as E, parser2 as P
from imperative.com import While, Assign, Seq

a, b, c = E.Var('a'), E.Var('b'), E.Var('c')


def rt(mech, e):
    s = str(e)
    r = P.cond_parser.parse(s)
    print('%-50s %-40r re-parsed == original: %s   (%r)' % (mech, s, r == e, r))


rt('print-parse:negation-loses-parentheses', E.neg(E.conj(E.eq(a, E.zero), E.eq(b, E.zero))))
rt('print-parse:left-nested-minus', E.eq(E.minus(E.minus(a, b), c), E.zero))
rt('print-parse:product-left-of-sum', E.eq(E.plus(E.times(a, b), c), E.zero))
rt('print-parse:unary-minus-captures-right-operand', E.eq(E.plus(E.uminus(a), b), E.zero))
rt('print-parse:boolean-operator-nesting', E.conj(E.Op('|', E.eq(a, E.zero), E.eq(b, E.zero)), E.eq(c, E.zero)))
rt('print-parse:if-then-else-captures-right-operand',
   E.conj(E.ITE(E.eq(a, E.zero), E.eq(b, E.zero), E.eq(b, E.one)), E.eq(c, E.zero)))

# The same loss in the VCs listed for the user: {0 <= a} while (a < 3 & b < 3) [0 <= a] {a := a + 1; b := b + 1} {3 <= a}
# is NOT a valid triple (a = 0, b = 5 leaves the loop at once with a = 0), the computed exit VC
# 0 <= a & ~(a < 3 & b < 3) --> 3 <= a is not valid, but it is SHOWN as "0 <= a & ~a < 3 & b < 3 --> 3 <= a", which is valid.
w = While(E.conj(E.less(a, E.Const(3)), E.less(b, E.Const(3))), E.less_eq(E.zero, a),
          Seq(Assign('a', E.plus(a, E.one)), Assign('b', E.plus(b, E.one))))
w.pre = [E.less_eq(E.zero, a)]
w.compute_wp(E.less_eq(E.Const(3), a))
for vc in w.get_vcs({'a': 'int', 'b': 'int'}):
    print('VC shown:', vc, '   re-parsed:', repr(P.cond_parser.parse(vc)))

# substitution builds the left-nested minus by itself:  {true} a := a - b {a - c == 0}
s = Assign('a', E.minus(a, b))
s.pre = [E.true]
s.compute_wp(E.eq(E.minus(a, c), E.zero))
print('VC shown:', s.get_vcs({'a': 'int', 'b': 'int', 'c': 'int'}), ' computed: (a - b) - c == 0')
