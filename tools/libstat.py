#!/venv/bin/python
"""Per-theory library replay statistics (what `python -m server.monitor` prints), 16 theories at a time.
usage: tools/libstat.py [repo_path] > stats.json"""
import json, os, subprocess, sys
from concurrent.futures import ThreadPoolExecutor
repo = sys.argv[1] if len(sys.argv) > 1 else '/repo'
names = sorted(f[:-5] for f in os.listdir(os.path.join(repo, 'library')) if f.endswith('.json') and f != 'hoare_test_output.json')
CODE = r'''
import sys, json, types, os
m = types.ModuleType('smt'); m.__path__=[os.path.join(sys.argv[2],'smt')]; sys.modules['smt']=m
from logic import basic
from prover import z3wrapper
from data import expr, real
from imperative import imp
from prover import z3wrapper
from server import monitor
basic.load_metadata(); z3wrapper.check_z3 = False
r = monitor.check_theory(sys.argv[1])
st = r['stat']; st.pop('exec_time')
bad = sorted((d['name'], d['status'], d.get('err_type',''), d.get('err_str','')[:80]) for d in r['data'] if d['status'] in ('Failed','ProofFail','ParseFail','EditFail'))
print(json.dumps({'stat': st, 'bad': bad}))
'''
def run(n):
    env = dict(os.environ, PYTHONPATH=repo, PYTHONDONTWRITEBYTECODE='1', PYTHONHASHSEED='0')
    p = subprocess.run(['/venv/bin/python', '-c', CODE, n, repo], cwd=repo, env=env, stdout=subprocess.PIPE, stderr=subprocess.PIPE, timeout=1800)
    try:
        return n, json.loads(p.stdout.decode().strip().splitlines()[-1])
    except Exception:
        return n, {'error': p.stderr.decode()[-500:]}
with ThreadPoolExecutor(16) as ex:
    res = dict(ex.map(run, names))
json.dump(res, sys.stdout, indent=1, sort_keys=True)
