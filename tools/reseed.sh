#!/bin/bash
# usage: tools/reseed.sh C06_5 [check ids]  - re-apply a kept seed to the CURRENT /repo HEAD in a scratch worktree, run the
# quick check(s) and record the result in seeded/<X>/meta.json (coordinator_validation.quick_check_results)
set -u
X="$1"; shift; ID="${X%%_*}"; CHECKS="${*:-$ID}"
WT=/tmp/reseed_$X
git -C /repo worktree remove --force $WT 2>/dev/null
git -C /repo worktree add -q --detach $WT HEAD || exit 3
if ! git -C $WT apply /verif/seeded/$X/patch.diff 2>/tmp/reseed_$X.err; then echo "$X: patch does not apply to HEAD ($(head -1 /tmp/reseed_$X.err))"; git -C /repo worktree remove --force $WT; exit 4; fi
for c in $CHECKS; do
  VF_REPO=$WT /verif/check $c quick > /tmp/reseed_${X}_$c.log 2>&1; RC=$?; echo "$X: check $c quick exit $RC"
  grep "mechanism=" /tmp/reseed_${X}_$c.log | grep -v KNOWN | cut -c1-220 | head -3
  /venv/bin/python - "$X" "$c" "$RC" <<'PY'
import json, re, sys, subprocess
X, c, rc = sys.argv[1:4]
p = '/verif/seeded/%s/meta.json' % X
m = json.load(open(p))
log = open('/tmp/reseed_%s_%s.log' % (X, c)).read()
mechs = sorted(set(re.findall(r'^  mechanism=(\S+)', log, re.M)))
head = subprocess.check_output(['git', '-C', '/repo', 'log', '--format=%h', '-n', '1']).decode().strip()
cv = m.setdefault('coordinator_validation', {})
cv.setdefault('quick_check_results', {})[c] = {'detected': bool(re.search(r'^VIOLATION property=', log, re.M)), 'mechanisms': mechs[:8],
    'inconclusive': 'INCONCLUSIVE' in log, 'note': 'patch re-applied to /repo HEAD %s (tools/reseed.sh)' % head}
cv.setdefault('ran', []).append('tools/reseed.sh %s %s' % (X, c))
json.dump(m, open(p, 'w'), indent=1)
PY
done
git -C /repo worktree remove --force $WT
