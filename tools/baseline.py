#!/venv/bin/python
"""Run the repository's baseline suite (hooks off) on a scratch worktree of /repo's working tree
and compare the passing set with /root/.vp/BASELINE.json.  Usage: tools/baseline.py [--head]"""
import json, os, subprocess, sys, tempfile, shutil, xml.etree.ElementTree as ET
SRC = sys.argv[1] if len(sys.argv) > 1 else '/repo'
base = json.load(open('/root/.vp/BASELINE.json'))
want = set(base['stable_pass'])
wt = tempfile.mkdtemp(prefix='holpy_base_')
try:
    # copy the working tree (tracked files incl. uncommitted edits)
    subprocess.check_call('cd %s && git ls-files -z | rsync -a --from0 --files-from=- %s/ %s/' % (SRC, SRC, wt), shell=True)
    # untracked data files that the suite may read
    subprocess.call('cd %s && git ls-files -z --others --exclude-standard | rsync -a --from0 --files-from=- %s/ %s/' % (SRC, SRC, wt), shell=True)
    xmlf = os.path.join(wt, 'junit.xml')
    env = dict(os.environ); env.pop('HOLPY_VERIF', None); env['PYTHONDONTWRITEBYTECODE'] = '1'
    p = subprocess.run('/venv/bin/python -m pytest -ra -q -p no:cacheprovider --timeout=900 '
                       '--continue-on-collection-errors --junitxml=%s' % xmlf, shell=True, cwd=wt, env=env,
                       stdout=subprocess.PIPE, stderr=subprocess.STDOUT)
    tail = p.stdout.decode('utf-8', 'replace').strip().splitlines()[-1:]
    passed = set()
    for tc in ET.parse(xmlf).getroot().iter('testcase'):
        if not any(c.tag in ('failure', 'error', 'skipped') for c in tc):
            passed.add('%s::%s' % (tc.get('classname'), tc.get('name')))
    missing = sorted(want - passed)
    print(tail)
    print('baseline stable_pass=%d passed_now=%d missing=%d' % (len(want), len(passed & want), len(missing)))
    for m in missing[:30]:
        print('  MISSING', m)
    sys.exit(1 if missing else 0)
finally:
    shutil.rmtree(wt, ignore_errors=True)
