import sys, io, contextlib; sys.path.insert(0,'/repo')
import warnings; warnings.filterwarnings('ignore')
from integral import rules, parser, poly, conditions
from integral.context import Context
from integral.conditions import Conditions
P = parser.parse_expr
def ctx(*conds):
    c = Context(); c.load_book('base')
    for x in conds: c.add_condition(P(x))
    return c
def show(tag, v): print('%-34s %s' % (tag, v))
# 1 deriv cot / acot
show('deriv cot(2x)', rules.deriv('x', P('cot(2*x)'), ctx()))                 # -(csc(2x)^2): factor 2 missing
show('deriv acot(x)', rules.deriv('x', P('acot(x)'), ctx()))                  # -1/(1+x)^2  instead of -1/(1+x^2)
# 2 DerivIntExchange swaps the bounds
show('DerivIntExchange', rules.DerivIntExchange().eval(P('INT x:[0,1]. D a. sin(a*x)'), ctx()))
show('DerivIntExchange var bounds', rules.DerivIntExchange().eval(P('D a. INT x:[0,a]. x*a'), ctx()))
# 3 ReduceLimit 0/0 -> 0
show('ReduceLimit x/sin(2x)', rules.ReduceLimit().eval(P('LIM {x -> 0}. x / sin(2*x)'), ctx()))
# 4 SimplifyPower / ApplyIdentity (x^a)^b -> x^(a*b)
show('SimplifyPower', rules.SimplifyPower().eval(P('(x ^ (-2)) ^ (1/2)'), ctx('x < 0')))
show('ApplyIdentity', rules.ApplyIdentity(P('(x^2)^(1/2)'), P('x')).eval(P('(x^2)^(1/2)'), ctx('x < 0')))
# 5 normalize drops the coefficient under an even root of a negative monomial
show('normalize (-3x)^(1/2)', poly.normalize(P('(-3*x)^(1/2)'), Conditions([P('x < 0')])))
show('normalize atan(tan(x))', poly.normalize(P('atan(tan(x))'), Conditions()))
e = P('((2 + (-a)) ^ 1) / 2'); n1 = poly.normalize(e, Conditions()); n2 = poly.normalize(n1, Conditions())
show('normalize twice', '%s  |  %s' % (n1, n2))
# 6 Substitution
show('Subst u=x^2 on [-3,-2]', rules.Substitution('u', P('x^2')).eval(P('INT x:[-3,-2]. x'), ctx()))      # -5/2 expected
show('Subst u=x^2 on [-1,2]', rules.Substitution('u', P('x^2')).eval(P('INT x:[-1,2]. x^2'), ctx()))      # 3 expected
show('Subst u=tan(x) on [0,2]', rules.Substitution('u', P('tan(x)')).eval(P('INT x:[0,2]. 1'), ctx()))
# 7 ElimInfInterval reversed improper integral
show('ElimInfInterval', rules.ElimInfInterval().eval(P('INT x:[0,-oo]. 1/(x^2+1)'), ctx()))
# 8 ReplaceSubstitution substitutes the bound variable
c = ctx(); c.add_subst('u', P('x + a'))
show('ReplaceSubstitution', rules.ReplaceSubstitution().eval(P('INT u. exp(a - u)'), c))
# 9 interval arithmetic
show('bounds pi/y', Conditions([P('x < 0')]).get_bounds_for_expr(P('pi / y')))
show('bounds (1/2-x)^4, x>2', Conditions([P('x > 2')]).get_bounds_for_expr(P('(1/2 - x)^4')))
show('bounds cos(x^2)^-1', Conditions([P('x >= 0'), P('x <= 2')]).get_bounds_for_expr(P('cos(x^2)^(-1)')))
