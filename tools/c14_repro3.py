"""C14 reproducer 3: a rewrite_goal suggestion fails outright with AttributeError when the rewritten goal is `all f` with f
not an abstraction.   mechanism key:  rewrite_goal:fails-outright:AttributeError

run:  cd /repo && PYTHONPATH=/repo /venv/bin/python /verif/tools/c14_repro3.py

Term.is_forall() is true for `all f` with any f; logic.get_forall_names / strip_all_implies (used by trivial_macro.can_eval,
which apply_tactic calls on every new sub-goal) then read f.var_name.  Rewriting `!D. if P then B else D` with the hint
theorem cond_abs produces such a goal: search advertises it, apply raises.
"""
import copy
from logic import basic, context   # noqa
from server import server, method
from syntax import parser

context.set_context('logic', vars={'A': 'bool', 'B': 'bool', 'P': 'bool'})
state = server.parse_init_state(parser.parse_term('!D. if P then B else D'))
for r in state.search_method('0', []):
    if r.get('theorem') == 'cond_abs':
        print('suggestion:', {k: ([str(t) for t in v] if k == '_goal' else v) for k, v in r.items() if k != 'display'})
        try:
            st = copy.copy(state)
            method.apply_method(st, r)
            print('applied:\n' + str(st))
        except Exception as e:
            print('apply_method raised', type(e).__name__, e)
