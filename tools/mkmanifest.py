#!/venv/bin/python
"""Regenerates MANIFEST.json from the table below and validates it."""
import json, os, sys
HERE = os.path.dirname(os.path.dirname(os.path.abspath(__file__)))

BASELINE_OFF = ("cd /repo && env -u HOLPY_VERIF /venv/bin/python -m pytest -ra -q -p no:cacheprovider "
                "--timeout=900 --continue-on-collection-errors")

# id -> (technique, level text, level note, design ref)
CHECKS = {
    'C01': ('runtime monitor on theory.check_proof over generated adversarial primitive-rule scripts; '
            'accepted sequents judged by an independent finite-standard-model evaluator',
            'Exploration: every sequent accepted by the real checker on thousands of seeded hostile proof scripts is '
            'type-checked and evaluated in all finite standard models with type-variable domains <= 3; a violation is a '
            'concrete counter-model. Says nothing about scripts the generator does not produce or larger models.',
            'Trusts vf/shadow.py + vf/holmodel.py (calibrated on all logic_base theorems at start-up), CPython.',
            'DESIGN.md 2 C01'),
    'C02': ('event log of Theory._check_proof_item / Proof.find_item during real check_proof and checked_extend runs; '
            'offline well-foundedness, yield, gap-report and truth-table oracles over the log',
            'Exploration, exhaustive on a finite sub-space: all proofs of <= 2 items (quick) / <= 3 items (thorough) over the rule pool '
            'x every id assignment x every citation list x stated sequent, plus random nested proofs and (stated theorem, proof) pairs '
            'for checked_extend; each accepted proof is judged from the recorded log (citations resolved to earlier-verified visible '
            'items, recorded sequents implied by the rule yield, no placeholder under no_gaps, gap report = placeholders) and '
            'semantically (final sequent valid by truth table).',
            'Trusts the log wrappers (class attributes, installed from the harness), the 4-rule reference yield on shadows, vf.holmodel.',
            'DESIGN.md 2 C02'),
}

NOT_YET = {}


def main():
    props = [json.loads(l) for l in open(os.path.join(HERE, 'properties.jsonl'))]
    checks, na = [], []
    for p in props:
        pid = p['id']
        if pid in CHECKS:
            tech, text, note, ref = CHECKS[pid]
            checks.append({
                'property_id': pid,
                'quick_cmd': './check %s quick' % pid,
                'thorough_cmd': './check %s thorough' % pid,
                'evidence_file': 'evidence/%s.json' % pid,
                'replay_cmd_template': './check %s --replay {path}' % pid,
                'level_claimed': {'category': 'exploration', 'text': text, 'design_ref': ref},
                'level_note': note,
                'technique': tech,
            })
        else:
            na.append({'property_id': pid,
                       'reason': NOT_YET.get(pid, 'monitor designed (DESIGN.md section 2) but not built yet; not claimed')})
    man = {
        'version': 1,
        'setup_cmd': ('/venv/bin/python -m pip install -q --no-index --find-links /opt/veriftools/wheels '
                      '--target /verif/.deps icontract deal'),
        'hooks': {'guard': 'HOLPY_VERIF',
                  'enable': 'no source hooks: monitors wrap functions/registries from the harness (vf/), '
                            './check exports HOLPY_VERIF=1 for symmetry',
                  'baseline_off_cmd': BASELINE_OFF,
                  'source_commits': [], 'add_only': True},
        'engines': [{'name': 'vf', 'path': 'vf/', 'serves_properties': sorted(CHECKS),
                     'kind_free_text': 'python runtime-monitoring harness: contracts/wrappers on the real functions, '
                                       'shadow-term oracles, seeded hostile workloads, sharded over 16 processes'}],
        'checks': checks,
        'notes': 'All checks: exit 0 held on what was observed, exit 1 + VIOLATION line on a definite witness, '
                 'exit 2 + INCONCLUSIVE line when a deciding monitor saw too few events. VERIF_SEED honoured. '
                 'Known findings / fixed defects: known_findings.json.',
        'not_applicable': na,
    }
    out = os.path.join(HERE, 'MANIFEST.json')
    with open(out, 'w') as f:
        json.dump(man, f, indent=1)
    import jsonschema
    jsonschema.validate(man, json.load(open('/root/.vp/MANIFEST.schema.json')))
    print('MANIFEST ok: %d checks, %d not claimed' % (len(checks), len(na)))


if __name__ == '__main__':
    main()
