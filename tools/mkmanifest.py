#!/venv/bin/python
"""Regenerates MANIFEST.json from the table below and validates it."""
import json, os, sys
HERE = os.path.dirname(os.path.dirname(os.path.abspath(__file__)))

BASELINE_OFF = ("cd /repo && env -u HOLPY_VERIF /venv/bin/python -m pytest -ra -q -p no:cacheprovider "
                "--timeout=900 --continue-on-collection-errors")

# id -> (technique, level text, level note, design ref)
CHECKS = {
    'C01': ('runtime monitor on theory.check_proof over generated adversarial primitive-rule scripts; '
            'accepted sequents judged by an independent finite-standard-model evaluator',
            'Exploration: every sequent accepted by the real checker on thousands of seeded hostile proof scripts is '
            'type-checked and evaluated in all finite standard models with type-variable domains <= 3; a violation is a '
            'concrete counter-model. Says nothing about scripts the generator does not produce or larger models.',
            'Trusts vf/shadow.py + vf/holmodel.py (calibrated on all logic_base theorems at start-up), CPython.',
            'DESIGN.md 2 C01'),
    'C02': ('event log of Theory._check_proof_item / Proof.find_item during real check_proof and checked_extend runs; '
            'offline well-foundedness, yield, gap-report and truth-table oracles over the log',
            'Exploration, exhaustive on a finite sub-space: all proofs of <= 2 items (quick) / <= 3 items (thorough) over the rule pool '
            'x every id assignment x every citation list x stated sequent, plus random nested proofs and (stated theorem, proof) pairs '
            'for checked_extend; each accepted proof is judged from the recorded log (citations resolved to earlier-verified visible '
            'items, recorded sequents implied by the rule yield, no placeholder under no_gaps, gap report = placeholders) and '
            'semantically (final sequent valid by truth table).',
            'Trusts the log wrappers (class attributes, installed from the harness), the 4-rule reference yield on shadows, vf.holmodel.',
            'DESIGN.md 2 C02'),
    'C03': ('postconditions on the real Term/Type operations (==, hash, subst, subst_type(_inplace), subst_bound, beta_conv/norm, '
            'abstract_over, incr_boundvars, match, fast_compare) against a shadow reference implementation and a finite-model '
            'evaluator; object-churn history workload for id recycling',
            'Exploration: tens of thousands of seeded operations on generated well-typed terms (nested binders, clashing names, '
            'shared sub-objects, loose-bound arguments, objects built by construction / Term(t) / copy / substitution), each '
            'compared with textbook de Bruijn operations on tuples, type-checked, and (where evaluable) compared by denotation in '
            'finite models; millions of equality queries between old wrapper objects and freshly allocated terms.',
            'Trusts vf/shadow.py reference operations and vf/holmodel.py; id recycling is probabilistic (counter churn_comparisons).',
            'DESIGN.md 2 C03'),
    'C05': ('runtime monitor on theory.check_proof of one-step proofs invoking each level-0 arithmetic macro on generated goals; '
            'returned sequent judged by an independent declared-type exact / 80-digit evaluator',
            'Exploration: ~25k (quick) goals over the ten trusted arithmetic macros, including goals at types the macro is not '
            'meant for, right-hand sides computed under wrong semantics, zero divisors, fractional and negative-base powers, '
            'float-ulp neighbours of irrational constants and polynomial identities; a violation is an accepted statement that '
            'the evaluator finds definitely false (exact rational arithmetic, or mpmath at 80 digits with a 1e-45 margin).',
            'Trusts vf/arith.py (semantics taken from library definitions: truncated nat minus, x/0 = 0, real power, sqrt), mpmath.',
            'DESIGN.md 2 C05'),
    'C06': ('runtime monitor on acceptance of one-step z3 / sympy proofs by the real checker; counter-model search under HOL '
            'semantics (three-valued bounded evaluator + independent guard-correct Z3 encoding for closed sub-sentences; '
            'exact/80-digit evaluation at sampled points for SymPy goals)',
            'Exploration: generated first-order arithmetic goals with quantifiers over bool/nat/int/real/uninterpreted types in '
            'positive and negative positions, nat subtraction, division, of_nat, ite/min/max/abs, function variables (Z3 step) and '
            'real (dis)equalities / inequalities with partial operators, optionally under an interval premise (SymPy step); a '
            'violation is an accepted goal with a definite counter-model.',
            'Trusts vf/hol3.py (Kleene evaluation; unsat answers of its own Z3 encoding for closed function-free sentences), vf/arith.py.',
            'DESIGN.md 2 C06'),
    'C17': ('icontract class invariant on CongClosure after every public call + naive fixpoint closure as reference model for '
            'test/explain + proof checker on CongClosureHOL explanations',
            'Exploration, exhaustive on finite sub-spaces: all merge sequences of length <= 2 (quick) / <= 3 (thorough) over the 36 '
            'equations on 3 constants, all n! merge orders of generated sets with n <= 5, random interleavings of merge/test/explain '
            'above; every test answer on every pair is compared with a naive closure, explanations are re-closed, HOL explanations '
            'are exported and checked by theory.check_proof with conclusion/hypotheses compared on shadows.',
            'Trusts vf/oracle_c17_naive.py (calibrated on hand-computed instances), icontract, the kernel checker for HOL proofs.',
            'DESIGN.md 2 C17'),
    'C07': ('postcondition on the real printer under every printer setting: printed text re-parsed by the real parser and compared '
            'on shadows; memo-table differential for history independence; library statements as realistic workload',
            'Exploration: ~5k generated well-typed terms per quick run over the signature of theory real (operators in all argument '
            'positions, binders, numerals, literals, overloaded constants at declared instances) x 12 printer settings, plus types, '
            'sequents, exported proof items, and a slice (thorough: all) of the library statements; failing terms are minimised and '
            'keyed by the disagreement between operator table and grammar that they exhibit.',
            'Trusts vf/shadow.py alpha-equality; generator restricted to declared instances and parseable variable names.',
            'DESIGN.md 2 C07'),
    'C18': ('wrappers on eval of all registered verit_* macros (acceptance observed from ProofReconstruction too); independent Z3 '
            'encoding + own evaluator decide whether the accepted clause follows from the premises; truth tables for end-to-end '
            'propositional Alethe scripts',
            'Exploration: correct template instances for 84 rules and near-miss mutations (literal dropped/added/negated/permuted, '
            'premise shortened/lengthened, coefficients perturbed, wrong pivots, contexts changed); synthetic Alethe scripts over '
            'satisfiable assumptions through the real validate(is_eval=True). No veriT binary: all steps synthetic.',
            'Trusts vf/oracle_c18_sem.py (Z3 as counter-model finder, models re-evaluated when quantifier-free or finite).',
            'DESIGN.md 2 C18'),
}

NOT_YET = {}


def main():
    props = [json.loads(l) for l in open(os.path.join(HERE, 'properties.jsonl'))]
    checks, na = [], []
    for p in props:
        pid = p['id']
        if pid in CHECKS:
            tech, text, note, ref = CHECKS[pid]
            checks.append({
                'property_id': pid,
                'quick_cmd': './check %s quick' % pid,
                'thorough_cmd': './check %s thorough' % pid,
                'evidence_file': 'evidence/%s.json' % pid,
                'replay_cmd_template': './check %s --replay {path}' % pid,
                'level_claimed': {'category': 'exploration', 'text': text, 'design_ref': ref},
                'level_note': note,
                'technique': tech,
            })
        else:
            na.append({'property_id': pid,
                       'reason': NOT_YET.get(pid, 'monitor designed (DESIGN.md section 2) but not built yet; not claimed')})
    man = {
        'version': 1,
        'setup_cmd': ('/venv/bin/python -m pip install -q --no-index --find-links /opt/veriftools/wheels '
                      '--target /verif/.deps icontract deal'),
        'hooks': {'guard': 'HOLPY_VERIF',
                  'enable': 'no source hooks: monitors wrap functions/registries from the harness (vf/), '
                            './check exports HOLPY_VERIF=1 for symmetry',
                  'baseline_off_cmd': BASELINE_OFF,
                  'source_commits': [], 'add_only': True},
        'engines': [{'name': 'vf', 'path': 'vf/', 'serves_properties': sorted(CHECKS),
                     'kind_free_text': 'python runtime-monitoring harness: contracts/wrappers on the real functions, '
                                       'shadow-term oracles, seeded hostile workloads, sharded over 16 processes'}],
        'checks': checks,
        'notes': 'All checks: exit 0 held on what was observed, exit 1 + VIOLATION line on a definite witness, '
                 'exit 2 + INCONCLUSIVE line when a deciding monitor saw too few events. VERIF_SEED honoured. '
                 'Known findings / fixed defects: known_findings.json.',
        'not_applicable': na,
    }
    out = os.path.join(HERE, 'MANIFEST.json')
    with open(out, 'w') as f:
        json.dump(man, f, indent=1)
    import jsonschema
    jsonschema.validate(man, json.load(open('/root/.vp/MANIFEST.schema.json')))
    print('MANIFEST ok: %d checks, %d not claimed' % (len(checks), len(na)))


if __name__ == '__main__':
    main()
