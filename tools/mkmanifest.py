#!/venv/bin/python
"""Regenerates MANIFEST.json from the table below and validates it."""
import json, os, sys
HERE = os.path.dirname(os.path.dirname(os.path.abspath(__file__)))

BASELINE_OFF = ("cd /repo && env -u HOLPY_VERIF /venv/bin/python -m pytest -ra -q -p no:cacheprovider "
                "--timeout=900 --continue-on-collection-errors")

# id -> (technique, level text, level note, design ref)
CHECKS = {
    'C01': ('runtime monitor on theory.check_proof over generated adversarial primitive-rule scripts; '
            'accepted sequents judged by an independent finite-standard-model evaluator',
            'Exploration: every sequent accepted by the real checker on thousands of seeded hostile proof scripts is '
            'type-checked and evaluated in all finite standard models with type-variable domains <= 3; a violation is a '
            'concrete counter-model. Says nothing about scripts the generator does not produce or larger models.',
            'Trusts vf/shadow.py + vf/holmodel.py (calibrated on all logic_base theorems at start-up), CPython.',
            'DESIGN.md 2 C01'),
    'C02': ('event log of Theory._check_proof_item / Proof.find_item during real check_proof and checked_extend runs; '
            'offline well-foundedness, yield, gap-report and truth-table oracles over the log',
            'Exploration, exhaustive on a finite sub-space: all proofs of <= 2 items (quick) / <= 3 items (thorough) over the rule pool '
            'x every id assignment x every citation list x stated sequent, plus random nested proofs and (stated theorem, proof) pairs '
            'for checked_extend; each accepted proof is judged from the recorded log (citations resolved to earlier-verified visible '
            'items, recorded sequents implied by the rule yield, no placeholder under no_gaps, gap report = placeholders) and '
            'semantically (final sequent valid by truth table).',
            'Trusts the log wrappers (class attributes, installed from the harness), the 4-rule reference yield on shadows, vf.holmodel.',
            'DESIGN.md 2 C02'),
    'C03': ('postconditions on the real Term/Type operations (==, hash, subst, subst_type(_inplace), subst_bound, beta_conv/norm, '
            'abstract_over, incr_boundvars, match, fast_compare) against a shadow reference implementation and a finite-model '
            'evaluator; object-churn history workload for id recycling',
            'Exploration: tens of thousands of seeded operations on generated well-typed terms (nested binders, clashing names, '
            'shared sub-objects, loose-bound arguments, objects built by construction / Term(t) / copy / substitution), each '
            'compared with textbook de Bruijn operations on tuples, type-checked, and (where evaluable) compared by denotation in '
            'finite models; millions of equality queries between old wrapper objects and freshly allocated terms.',
            'Trusts vf/shadow.py reference operations and vf/holmodel.py; id recycling is probabilistic (counter churn_comparisons).',
            'DESIGN.md 2 C03'),
    'C05': ('runtime monitor on theory.check_proof of one-step proofs invoking each level-0 arithmetic macro on generated goals; '
            'returned sequent judged by an independent declared-type exact / 80-digit evaluator',
            'Exploration: ~25k (quick) goals over the ten trusted arithmetic macros, including goals at types the macro is not '
            'meant for, right-hand sides computed under wrong semantics, zero divisors, fractional and negative-base powers, '
            'float-ulp neighbours of irrational constants and polynomial identities; a violation is an accepted statement that '
            'the evaluator finds definitely false (exact rational arithmetic, or mpmath at 80 digits with a 1e-45 margin).',
            'Trusts vf/arith.py (semantics taken from library definitions: truncated nat minus, x/0 = 0, real power, sqrt), mpmath.',
            'DESIGN.md 2 C05'),
    'C06': ('runtime monitor on acceptance of one-step z3 / sympy proofs by the real checker; counter-model search under HOL '
            'semantics (three-valued bounded evaluator + independent guard-correct Z3 encoding for closed sub-sentences; '
            'exact/80-digit evaluation at sampled points for SymPy goals)',
            'Exploration: generated first-order arithmetic goals with quantifiers over bool/nat/int/real/uninterpreted types in '
            'positive and negative positions, nat subtraction, division, of_nat, ite/min/max/abs, function variables (Z3 step) and '
            'real (dis)equalities / inequalities with partial operators, optionally under an interval premise (SymPy step); a '
            'violation is an accepted goal with a definite counter-model.',
            'Trusts vf/hol3.py (Kleene evaluation; unsat answers of its own Z3 encoding for closed function-free sentences), vf/arith.py.',
            'DESIGN.md 2 C06'),
    'C17': ('icontract class invariant on CongClosure after every public call + naive fixpoint closure as reference model for '
            'test/explain + proof checker on CongClosureHOL explanations',
            'Exploration, exhaustive on finite sub-spaces: all merge sequences of length <= 2 (quick) / <= 3 (thorough) over the 36 '
            'equations on 3 constants, all n! merge orders of generated sets with n <= 5, random interleavings of merge/test/explain '
            'above; every test answer on every pair is compared with a naive closure, explanations are re-closed, HOL explanations '
            'are exported and checked by theory.check_proof with conclusion/hypotheses compared on shadows.',
            'Trusts vf/oracle_c17_naive.py (calibrated on hand-computed instances), icontract, the kernel checker for HOL proofs.',
            'DESIGN.md 2 C17'),
    'C07': ('postcondition on the real printer under every printer setting: printed text re-parsed by the real parser and compared '
            'on shadows; memo-table differential for history independence; library statements as realistic workload',
            'Exploration: ~5k generated well-typed terms per quick run over the signature of theory real (operators in all argument '
            'positions, binders, numerals, literals, overloaded constants at declared instances) x 12 printer settings, plus types, '
            'sequents, exported proof items, and a slice (thorough: all) of the library statements; failing terms are minimised and '
            'keyed by the disagreement between operator table and grammar that they exhibit.',
            'Trusts vf/shadow.py alpha-equality; generator restricted to declared instances and parseable variable names.',
            'DESIGN.md 2 C07'),
    'C18': ('wrappers on eval of all registered verit_* macros (acceptance observed from ProofReconstruction too); independent Z3 '
            'encoding + own evaluator decide whether the accepted clause follows from the premises; truth tables for end-to-end '
            'propositional Alethe scripts',
            'Exploration: correct template instances for 84 rules and near-miss mutations (literal dropped/added/negated/permuted, '
            'premise shortened/lengthened, coefficients perturbed, wrong pivots, contexts changed); synthetic Alethe scripts over '
            'satisfiable assumptions through the real validate(is_eval=True). No veriT binary: all steps synthetic.',
            'Trusts vf/oracle_c18_sem.py (Z3 as counter-model finder, models re-evaluated when quantifier-free or finite).',
            'DESIGN.md 2 C18'),
    'C08': ('contract on the real infertype.type_infer (snapshot of skeleton/context before, result or exception after) judged by '
            'an independent type checker on shadows; erasures of generated well-typed terms must be recovered exactly',
            'Exploration: every call of type_infer during generated erasures at three annotation levels, hostile ill-typed skeletons '
            'and re-parsing of library statements is checked for: well-typedness, same shape, kept annotations and declared types, '
            'one type per variable, constants at instances of declared types, no internal type variable, exact recovery; any '
            'exception other than its own error classes is a violation.',
            'Trusts vf/shadow.py typeof / ty_match; declared types read from theory data tables.',
            'DESIGN.md 2 C08'),
    'C09': ('contract on the real matcher.first_order_match (module attribute wrapped: all callers in the library replay are seen) '
            'with reference instantiate-then-beta-eta on shadows',
            'Exploration: every successful match observed while replaying recorded library proofs (tens of thousands per quick run) '
            'and on generated pairs (first-order, Miller, heuristic, pre-seeded instantiations, constructed instances, near-miss '
            'targets with redirected bound variables, clashing binder names) is re-instantiated by the reference implementation '
            'and compared with the target modulo beta-eta; caller instantiation must be unchanged and extended; first-order '
            'patterns must match their constructed instances.',
            'Trusts vf/shadow.py substitution / beta / eta.',
            'DESIGN.md 2 C09'),
    'C13': ' Directed histories whose last step (revert_intro of an assumption cited from inside a nested block) must be refused; generic failures are keyed by method, failing line and exception, bad citations by their kind.',
    'C15': ('sys.monitoring PY_RETURN hooks on the nested functions of sat.solve_cnf (trail / learned-clause invariants, logical '
            'termination bound) + brute-force truth tables + resolution-trace replay; Tseitin theorems through the proof checker',
            'Exploration, exhaustive on finite sub-spaces: all CNFs over 2 variables with <= 3 clauses and 3 variables with <= 2 '
            'clauses (quick; thorough: <= 4 clauses), sampled larger ones, random CNFs up to 12 variables with duplicate and '
            'tautological literals, several hash seeds; every verdict compared with brute force, every model substituted, every '
            'unsat trace replayed, trail invariants checked at every propagate/backtrack return.',
            'Trusts the truth-table oracle (calibrated against naive enumeration at start-up) and the kernel checker for Tseitin proofs; '
            'sat/zchaff.py needs an absent binary and is not covered.',
            'DESIGN.md 2 C15'),
    'C16': ('wrappers on omega.solve_matrix, OmegaHOL.solve, Simplex.check/pivot/handle_assertion, branch_and_bound and the simplex '
            'macros; witnesses judged by exact substitution, UNSAT answers by verified witnesses (planted / box search / re-checked Z3 '
            'model); produced proofs through the proof checker',
            'Exploration: thousands of generated systems (<= 5 variables, <= 8 rows, zero rows, duplicates, paired equalities, '
            'unbounded directions, dark/grey shadow cases) for the integer and rational procedures and the strict-inequality '
            'simplex; start-up calibration of the row semantics against the repository test data.',
            'Trusts exact Fraction arithmetic; Z3 only as a model finder whose models are re-checked.',
            'DESIGN.md 2 C16'),
    'C19': ('wrappers on eval of every integral.rules.Rule subclass (input, context conditions, output) judged by an independent '
            'mpmath evaluator (quadrature / limits / sums / derivatives at 30 and 60 digits) at admissible parameter draws',
            'Exploration: all 1308 recorded steps of the example files re-executed read-only plus generated integrands and rule '
            'parameters; a step is violated only when before/after differ by more than 1e4 x the error estimate at two independent '
            'draws; ~19% of calls are inconclusive (non-convergence, budget) and counted as such.',
            'Trusts vf/oracle_c19_numeric.py and mpmath; principal-value and domain hazards are treated as inconclusive.',
            'DESIGN.md 2 C19'),
    'C20': ('wrappers on Com.compute_wp / Expr.__str__ / convert_hol and imp.eval_Sem / vcg; reference interpreter + own Z3 '
            'encoding of every VC; printed conditions re-parsed by the real parser and evaluated on sampled states',
            'Exploration: generated annotated while-programs (depth <= 4, <= 3 variables) with guided and hostile specifications; '
            'soundness judged only when every VC is proved valid by an independent encoding, then every precondition state of the '
            'cube is executed; meaning preservation of shown/re-parsed VCs; eval_Sem final states against the interpreter.',
            'Trusts vf/oracle_c20_lang.py (interpreter, evaluators, Z3 unsat as "VC valid").',
            'DESIGN.md 2 C20'),
    'C10': ('contract on get_proof_term of every Conv subclass (class attributes wrapped after import; outermost calls fully judged, '
            'inner calls by a light contract) + harness-level canonicity of the nat / real / propositional normalisers on '
            'value-preserving rearrangements',
            'Exploration: conversions observed during library replay and on generated binder terms (result is an equation about '
            'exactly the given term, hypotheses only from supplied conditions, exported proof accepted by the checker, own eval = '
            'proof term); pairs of rearranged polynomial expressions and of conjunctions/disjunctions with equal member sets must '
            'get identical normal forms, idempotently and value-preservingly.',
            'Trusts vf/shadow.py and vf/arith.py; integer normal forms are observed but not judged (statement names naturals and reals).',
            'DESIGN.md 2 C10'),
    'C11': ('monitor on parse_item / get_extension / unchecked_extend and the export / display / parse_edit round trips following '
            'the protocol of server.monitor.check_theory; independent signature, conservativity and well-formedness oracles on shadows',
            'Exploration: all 4041 items of the 43 library files plus generated definitions, datatypes, inductive predicates and '
            'recursive functions including adversarial ones; accepted definitions must satisfy the syntactic conservativity '
            'conditions, every generated extension must be well-typed over the extended signature, round trips are compared field '
            'by field.',
            'Trusts vf/oracle_c11_sig.py (own matcher/unifier on shadow types).',
            'DESIGN.md 2 C11'),
    'C04': ('instance-level wrappers on eval of all registered macros; for sampled, de-duplicated observed tuples the monitor asks '
            'the real checker to expand the macro in place (same theory/context) and compares the established sequent with the '
            'evaluated one; memo-history workload for the auto macro',
            'Exploration: tuples observed while replaying recorded library proofs (15+ macro families per quick run), mutations of '
            'them (premise dropped / permuted / duplicated) that eval still accepts, generated imp_conj / imp_disj goals; an '
            'expansion that is produced must be accepted at check_level 0, prove the same conclusion and need no extra hypotheses.',
            'An expansion that raises counts as "no expansion produced" (statement is conditional on the expansion being produced).',
            'DESIGN.md 2 C04'),
    'C12': ('scripted histories executed in fresh subprocesses ending in load_theory; canonical dumps of theory.thy.data compared '
            'with a fresh process doing only the final load and with an expectation computed from the JSON files alone',
            'Exploration: ~100 (quick) / ~1700 (thorough) child processes: earlier loads, imports of modules with import-time loads, '
            'failing loads, interrupted loads (exception injected at the N-th parse_item), loads inside fresh_theory, other users, '
            'file rewrites/pokes/additions on temporary library trees, cycles and corrupt files; every theory is a final target in '
            'thorough.',
            'Trusts vf/oracle_c12_child.py (dump through shadows) and plain JSON reading for the expectation.',
            'DESIGN.md 2 C12'),
    'C14': ('each entry of the real search_method paired with the effect of apply_method on a copy of the state (front-end protocol '
            'for parameters); sub-goals, facts and solving claims compared on shadow sequents',
            'Exploration: sampled prefixes of recorded library proofs in 37 theories and generated states built from hint theorems; '
            'a suggestion must succeed or ask for named parameters, leave only advertised sub-goals, leave none when advertised as '
            'solving, and produce its advertised facts.',
            'Trusts the shadow comparison and the re-implemented trivial pattern; Z3 stubbed as in the repository replay.',
            'DESIGN.md 2 C14'),
    'C13': ('invariant hook after every editing operation applied to a copy of the state: full re-check, gap report vs visible '
            'placeholders, goal preservation, id contiguity and citation visibility (walked by the harness), export -> parse_proof '
            'round trip, deep snapshot of the original state',
            'Exploration: every prefix of sampled (thorough: all 2147) recorded library proofs, perturbed operations (other goals / '
            'facts, repeats, cut, cases, introduction, forall_elim, exists_elim, revert_intro, rewrite, raw line edits), generated '
            'propositional and first-order goals, directed renumbering scenarios, and the IDE history cache driven step by step.',
            'Trusts the shadow snapshots and the structural walk; Z3 stubbed as in the repository replay.',
            'DESIGN.md 2 C13'),
}

# history / state-leak workloads added after the seeded-break rounds (appended to the level text)
EXTRA = {
    'C01': ' Directed scenarios: substitution that fixes a schematic type variable only through its instances, open instances under binders, one hypothesis object placed at two binder depths by the kernel itself, hypotheses whose type variable occurs only in schematic variables; every accepted script is re-run as ONE block whose lines carry stated sequents (one possibly false) with gaps disallowed.',
    'C02': ' W-HIST: a proof object is checked, edited as the editor edits it (item replaced / arguments or citations changed in place) and checked again; the verdict must be the verdict of a fresh object with the same content.',
    'C03': ' Every sub-object of a hashed term is compared (==, hash) with a freshly built equal term, parent hashed first and parts first, incl. right-nested conj/disj chains; subst that has to instantiate type variables occurring only in schematic variables; contract on dest_abs (fresh variable, re-abstraction gives the abstraction back).',
    'C04': ' W-HIST for auto (premise / hypothesis-free premise / no premise in both orders); arguments retyped nat<->int<->real; generated goals at all three numeric types offered to every arithmetic macro that has an expansion.',
    'C05': ' W-HIST: a decided goal is released and a different goal of the same shape is allocated on the same address (id reuse). Goals whose irrational value has a whole-number double; mixed variable / numeral nat subtraction under of_nat.',
    'C06': ' W-HIST: a call that fails inside the translation after asserting the coming goal as its premise, then the goal; solveset memo differential. Equalities between function variables, quantifiers whose variable occurs only after an inner binder, SymPy goals about a variable the premise does not bound and at type nat / int.',
    'C07': ' W-HIST: memo differential and reprint-after-composite, judged by whether the text reads back to the term. Terms containing both faces of equals (= and <-->).',
    'C08': ' W-HIST: constants redeclared at another type in ad-hoc theories; a failing inference inside a nested context followed by inference in the enclosing one; directed terms whose binder types follow only through a chain of nested instantiations; ill-typed skeletons that clash two declared type variables.',
    'C09': ' Schematic heads applied to a mix of bound variables and already instantiated schematic variables under several binders (pre-seeded and matched earlier), with targets that mention a bound variable missing from the arguments.',
    'C10': ' W-HIST: the same terms normalised under a limited and under the full nat theory in both orders. Combinator terms whose binders are named like their free variables.',
    'C11': ' Schematic stray variables on right-hand sides; inductive predicates declared on an overloaded library constant with a rule at another instance.',
    'C12': ' The dump also records what the accessors (get_theorem, get_term_sig) hand out, and every load is followed by look-ups as a user of the theory makes them; histories with an explicit metadata refresh; a copy of the real library in which real.json / set.json / nat.json is rewritten between two loads.',
    'C13': ' Directed histories whose last step (revert_intro of an assumption cited from inside a nested block) must be refused; generic failures are keyed by method, failing line and exception, bad citations by their kind.',
    'C15': ' Tseitin formulas whose atoms are all named like the introduced variables (x<i>, one-/two-digit boundary, leading zeros).',
    'C18': ' End-to-end scripts with nested / multi-assumption subproofs, assumptions after a closed inner block, blocks without steps, first-order bind blocks; structural oracle on every accepted closing step (premise = last step of its own block, local assumptions discharged). Directed templates carry their name in the mechanism key (integer rounding of non-multiple bounds, a resolved pivot returning in a later premise, ...).',
    'C19': ' API histories: forward through Calculation.perform_rule, go back, redo; redone steps judged against the substitutions of the steps still in the calculation. Directed interval arithmetic over a systematic family of ranges; even-root scenarios; a violated inner call is keyed together with the composite rule it was made for.',
    'C20': ' Constant-flow programs (constants assigned and then used in subtractions / products whose result is the left operand of + or -).',
}

NOT_YET = {}


def main():
    props = [json.loads(l) for l in open(os.path.join(HERE, 'properties.jsonl'))]
    checks, na = [], []
    for p in props:
        pid = p['id']
        if pid in CHECKS:
            tech, text, note, ref = CHECKS[pid]
            checks.append({
                'property_id': pid,
                'quick_cmd': './check %s quick' % pid,
                'thorough_cmd': './check %s thorough' % pid,
                'evidence_file': 'evidence/%s.json' % pid,
                'replay_cmd_template': './check %s --replay {path}' % pid,
                'level_claimed': {'category': 'exploration', 'text': text + EXTRA.get(pid, ''), 'design_ref': ref},
                'level_note': note,
                'technique': tech,
            })
        else:
            na.append({'property_id': pid,
                       'reason': NOT_YET.get(pid, 'monitor designed (DESIGN.md section 2) but not built yet; not claimed')})
    man = {
        'version': 1,
        'setup_cmd': ('/venv/bin/python -m pip install -q --no-index --find-links /opt/veriftools/wheels '
                      '--target /verif/.deps icontract deal'),
        'hooks': {'guard': 'HOLPY_VERIF',
                  'enable': 'no source hooks: monitors wrap functions/registries from the harness (vf/), '
                            './check exports HOLPY_VERIF=1 for symmetry',
                  'baseline_off_cmd': BASELINE_OFF,
                  'source_commits': [], 'add_only': True},
        'engines': [{'name': 'vf', 'path': 'vf/', 'serves_properties': sorted(CHECKS),
                     'kind_free_text': 'python runtime-monitoring harness: contracts/wrappers on the real functions, '
                                       'shadow-term oracles, seeded hostile workloads, sharded over 16 processes'}],
        'checks': checks,
        'notes': 'All checks: exit 0 held on what was observed, exit 1 + VIOLATION line on a definite witness, '
                 'exit 2 + INCONCLUSIVE line when a deciding monitor saw too few events. VERIF_SEED honoured. '
                 'Known findings / fixed defects: known_findings.json.',
        'not_applicable': na,
    }
    out = os.path.join(HERE, 'MANIFEST.json')
    with open(out, 'w') as f:
        json.dump(man, f, indent=1)
    import jsonschema
    jsonschema.validate(man, json.load(open('/root/.vp/MANIFEST.schema.json')))
    print('MANIFEST ok: %d checks, %d not claimed' % (len(checks), len(na)))


if __name__ == '__main__':
    main()
