"""Standalone reproducers for the C13 findings (run: cd /repo && /venv/bin/python /verif/tools/c13_repro.py).
Each block uses only repo code; 'full check' = ProofState.check_proof() without compute_only."""
import sys, copy, types, os, importlib.util, warnings
warnings.simplefilter('ignore')
REPO = os.environ.get('VF_REPO', '/repo')
sys.path.insert(0, REPO)
sys.setrecursionlimit(20000)
from logic import basic, context
from server import server, method
from prover import z3wrapper
from syntax.settings import global_setting
z3wrapper.check_z3 = False
basic.load_metadata()


def run(thy, vars_, prop, steps):
    context.set_context(thy, vars=vars_)
    st = server.parse_init_state(prop)
    for s in steps:
        try:
            method.apply_method(st, s)
            st.check_proof(compute_only=True)      # what ProofState.parse_steps does after every step
        except Exception as e:
            print('  step %s REJECTED: %s %s' % (s['method_name'], type(e).__name__, str(e)[:100]))
            break
    return st


def full(st, title):
    try:
        copy.copy(st).check_proof()
        print('  %-60s full check OK' % title)
    except Exception as e:
        print('  %-60s full check FAILS: %s %s' % (title, type(e).__name__, str(e).replace('\n', ' | ')[:150]))


def reimport(st, vars_, title):
    with global_setting(unicode=True):
        exp = st.export_proof()
    context.set_context(None, vars=vars_)
    try:
        server.parse_proof(exp)
        print('  %-60s re-import OK' % title)
    except Exception as e:
        print('  %-60s re-import FAILS: %s %s' % (title, type(e).__name__, str(e).replace('\n', ' | ')[:120]))


print('1. revert_intro of an assumption that is not the last one (recheck-fails-after-edit:revert_intro)')
V = {'A': 'bool', 'B': 'bool', 'C': 'bool'}
st = run('logic', V, 'A --> B --> C', [{'method_name': 'revert_intro', 'goal_id': '2', 'fact_ids': ['0']}])
print(st.prf)
full(st, 'after revert_intro on 2 using 0')

print('2. revert_intro of an assumption that other lines use / goal not feeding the intros line')
st = run('logic', V, 'A & B --> B & A', [{'method_name': 'apply_forward_step', 'goal_id': '1', 'fact_ids': ['0'], 'theorem': 'conjD1'},
                                      {'method_name': 'revert_intro', 'goal_id': '2', 'fact_ids': ['0']}])
print(st.prf)
full(st, 'after revert_intro with line 1 citing the assumption')

print('3. exists_elim with two names (recheck-fails-after-edit:exists_elim)')
V3 = {'R': "'a => 'a => bool", 'C': 'bool'}
st = run('logic', V3, '(?x. ?y. R x y) --> (!x. !y. R x y --> C) --> C',
         [{'method_name': 'exists_elim', 'goal_id': '2', 'fact_ids': ['0'], 'names': 'u, v'}])
full(st, 'after exists_elim names u, v')

print('4. apply_tactic: new subgoal both already proved earlier and trivial -> the macro line is overwritten')
V4 = {'A': 'bool', 'B': 'bool'}
st = run('logic', V4, '(B --> B) & (A --> A)', [{'method_name': 'cut', 'goal_id': '0', 'goal': 'A --> A'},
                                               {'method_name': 'apply_backward_step', 'goal_id': '1', 'theorem': 'conjI'}])
print(st.prf)
full(st, 'after conjI with A --> A available as line 0')

print('5. introduction on a goal that an earlier line already states -> the intros line of the new block is removed')
V5 = {'P': "'a => bool"}
st = run('logic', V5, '!x. P x --> P x', [{'method_name': 'cut', 'goal_id': '0', 'goal': '!x. P x --> P x'},
                                          {'method_name': 'introduction', 'goal_id': '1', 'names': 'x'}])
print(st.prf)
full(st, 'after introduction on 1 (same statement as line 0)')

print('6. nat_const_ineq on a goal at type real (recorded step of transcendentals.tan_pi4)')
st = run('real', {}, '~((2::real) = 0)', [{'method_name': 'nat_const_ineq', 'goal_id': '0'}])
full(st, 'after nat_const_ineq on ~((2::real) = 0)')

print('7. export drops the type instantiation of apply_theorem_for')
V7 = {'s': "'a set"}
st = run('set', V7, "finite (empty_set::'a set)", [{'method_name': 'apply_backward_step', 'goal_id': '0', 'theorem': 'finite_empty'}])
full(st, 'live state')
reimport(st, V7, 'finite_empty')

print('8. apply_induct arguments cannot be parsed back (parser.parse_args has no case for Tuple[str, Term, Term])')
V8 = {'n': 'nat'}
st = run('nat', V8, 'n + 0 = n', [{'method_name': 'induction', 'goal_id': '0', 'theorem': 'nat_induct', 'var': 'n'}])
full(st, 'live state')
reimport(st, V8, 'induction')

print('9. introduction / new_var accept a name already used at another type')
V9 = {'x': 'nat', 'P': "'a => bool"}
st = run('nat', V9, '0 <= x --> (!y. P y)', [{'method_name': 'introduction', 'goal_id': '1', 'names': 'x'}])
full(st, 'live state')
reimport(st, V9, 'introduction names x')

print('11. forward step aimed at the final line while an earlier line already states the goal -> the final line is removed')
st = run('logic', {'C': 'bool'}, 'C | ~C', [{'method_name': 'apply_backward_step', 'goal_id': '0', 'theorem': 'disjI1'},
                                             {'method_name': 'apply_forward_step', 'goal_id': '2', 'fact_ids': ['1', '0'], 'theorem': 'force_disj_true2'}])
print('  last line now states: %s   (goal: C | ~C)' % st.prf.items[-1].th)

print('12. parse_proof keeps the variable declarations of a closed block in force (recorded: iterate.iterate_reflect step 20)')
V12 = {'x': "'a => bool", 'a': "'a", 'Q': 'nat => bool'}
st = run('nat', V12, '(!x. Q x) & x a', [{'method_name': 'apply_backward_step', 'goal_id': '0', 'theorem': 'conjI'},
                                           {'method_name': 'introduction', 'goal_id': '0', 'names': 'x'}])
full(st, 'live state')
reimport(st, V12, 'block declares x::nat, a later line mentions the outer x')

print('14. rewrite_goal_with_prev with an equation that changes nothing')
V14 = {'a': "'a", 'f': "'a => 'a"}
st = run('logic', V14, '(!x. f x = x) --> f (f a) = a',
         [{'method_name': 'forall_elim', 'goal_id': '1', 'fact_ids': ['0'], 's': 'a'},
          {'method_name': 'rewrite_fact_with_prev', 'goal_id': '2', 'fact_ids': ['0', '1']},
          {'method_name': 'rewrite_goal_with_prev', 'goal_id': '3', 'fact_ids': ['2']}])
full(st, 'after rewriting the goal with a = a')

print('15. exists_elim on a goal that precedes assume / variable lines of its block')
V15 = {'P': "'a => bool", 'Q': "'a => bool"}
st = run('logic', V15, '(?x. P x) --> (?x. Q x) --> P = Q',
         [{'method_name': 'exists_elim', 'goal_id': '2', 'fact_ids': ['1'], 'names': 'u'},
          {'method_name': 'cut', 'goal_id': '2', 'goal': 'P = P'},
          {'method_name': 'exists_elim', 'goal_id': '2', 'fact_ids': ['0'], 'names': 'v'}])
full(st, 'after the second exists_elim (before the first one\'s lines)')

print('10. ProofCache.insert_step edits the history entry in place')
pkg = types.ModuleType('app'); pkg.__path__ = [os.path.join(REPO, 'app')]
appmod = types.ModuleType('app.app')
class _A:
    def route(self, *a, **k): return lambda f: f
appmod.app = _A(); sys.modules['app'] = pkg; sys.modules['app.app'] = appmod
import app.ide as ide
z3wrapper.check_z3 = False
data = {'username': 'master', 'theory_name': 'logic', 'thm_name': 'conj_comm', 'vars': {'A': 'bool', 'B': 'bool'},
        'prop': 'A & B <--> B & A', 'steps': []}
pc = ide.ProofCache(); pc.create_cache(data)
n0 = len(pc.states[0].prf.items)
pc.insert_step(0, {'goal_id': '0', 'method_name': 'apply_backward_step', 'theorem': 'iffI'})
print('  states[0] had %d lines, after the apply-method request for step 0 it has %d (states[1] has %d)' % (
    n0, len(pc.states[0].prf.items), len(pc.states[1].prf.items)))
